#!/bin/sh
# run every registered check (tier $1, default quick) on the unchanged tree; refreshes evidence/
TIER="${1:-quick}"
cd "$(dirname "$0")"
for i in 01 02 03 04 05 06 07 08 09 10 11 12 13 14 15 16 17 18 19 20; do
  ./vt check C$i --tier "$TIER" > /tmp/vt-runall-C$i.log 2>&1; rc=$?
  echo "C$i exit=$rc $(grep '^\[C' /tmp/vt-runall-C$i.log | tail -1)"
done
