#!/venv/bin/python
"""Regenerate MANIFEST.json from the table below (keeps it schema-valid at all times)."""
import json, sys
from pathlib import Path

ROOT = Path(__file__).resolve().parent
props = [json.loads(l) for l in (ROOT / "properties.jsonl").read_text().splitlines() if l.strip()]

CLAIMED = {
    # id: (category, technique, text, note, design_ref)
    "C01": ("exploration", "property-based testing (Hypothesis) with an exact polynomial oracle: generated abstract networks vs. parsed ydot text",
            "Generated networks are rendered for all four back-ends and every emitted ydot statement is compared, as an exact polynomial in k[], y[], with the mass-action law computed from the abstract network; equality of normal forms covers all abundance vectors and rate values of each generated network. Bounded search over networks, nothing proved.",
            "trusts my C-subset reader (vtlib.ctext) and the IDX_<alias> slot lookup; cuSPARSE observed as text only", "DESIGN.md 4/C01"),
    "C02": ("exploration", "property-based testing (Hypothesis), oracle = symbolic derivative of the emitted RHS polynomial",
            "Each emitted Jacobian entry of each back-end is compared with the exact derivative of the emitted ydot polynomial, both directions (emitted entries correct, omitted entries identically zero), over generated networks with ODE modifiers of 0-3 dependencies.",
            "all non-y symbols held fixed; unparsable text is a violation only if clang++ also rejects it", "DESIGN.md 4/C02"),
    "C03": ("exploration", "property-based testing (Hypothesis), validity predicate on CSR arrays + differential between the four back-ends' Jacobian text + pattern file",
            "CSR well-formedness, equality of coordinates and values across dense/sparse/cusparse/odeint, subscript bounds against the rendered macros, and jac_pattern.dat are checked on generated networks including empty rows and the thermal row.",
            "text-level observation; sanitizer run is a thorough-tier supplement", "DESIGN.md 4/C03"),
    "C04": ("exploration", "property-based testing (Hypothesis) over balanced-by-construction networks, oracle = zero polynomial of composition-weighted ydot sums",
            "For networks balanced by construction the composition- and charge-weighted sums of the emitted ydot polynomials must vanish identically, and GetElementAbund must equal the generator-side composition sum.",
            "compositions come from the generator; trusts vtlib.ctext", "DESIGN.md 4/C04"),
}
extra = {}
p = ROOT / "manifest_extra.json"
if p.exists():
    extra = json.loads(p.read_text())
CLAIMED.update({k: tuple(v) for k, v in extra.get("claimed", {}).items()})
NA = extra.get("not_applicable", {})

checks = []
for pr in props:
    i = pr["id"]
    if i not in CLAIMED:
        continue
    cat, tech, text, note, ref = CLAIMED[i]
    checks.append({
        "property_id": i,
        "quick_cmd": f"./vt check {i} --tier quick",
        "thorough_cmd": f"./vt check {i} --tier thorough",
        "evidence_file": f"evidence/{i}.json",
        "replay_cmd_template": f"./vt check {i} --replay {{path}}",
        "engine": "vtlib",
        "level_claimed": {"category": cat, "text": text, "design_ref": ref},
        "level_note": note,
        "technique": tech,
    })
na = []
for pr in props:
    if pr["id"] not in CLAIMED:
        na.append({"property_id": pr["id"], "reason": NA.get(pr["id"], "check not built yet in this session (planned; see DESIGN.md section 4) - not a limitation of the technique")})
man = {
    "version": 1,
    "setup_cmd": "./vt setup",
    "hooks": {
        "guard": "NAUNET_VERIF",
        "enable": "no instrumentation of /repo is needed: every observation point is a rendered artefact, a public object or a link-time substitute living in /verif",
        "baseline_off_cmd": "cd /repo && /venv/bin/python -m pytest -ra -q -p no:cacheprovider --timeout=900 --continue-on-collection-errors",
        "source_commits": [],
        "add_only": True,
    },
    "engines": [
        {"name": "vtlib", "path": "vtlib/", "serves_properties": [c["property_id"] for c in checks],
         "kind_free_text": "Hypothesis-driven generated search; generators in vtlib/gen, generated-C reader/interpreter in vtlib/ctext, compile-and-run shim in vtlib/cxx, checks in vtlib/checks"},
    ],
    "checks": checks,
    "not_applicable": na,
    "notes": "All checks: ./vt check <id> [--tier quick|thorough] [--replay F]; VERIF_SEED selects the Hypothesis seeds (seed*1000+shard). Exit 0 held / 1 VIOLATION / 2 harness error.",
}
(ROOT / "MANIFEST.json").write_text(json.dumps(man, indent=1))
print("claimed", [c["property_id"] for c in checks], "NA", len(na))
