#!/venv/bin/python
"""Regenerate MANIFEST.json from the table below (keeps it schema-valid at all times)."""
import json, sys
from pathlib import Path

ROOT = Path(__file__).resolve().parent
props = [json.loads(l) for l in (ROOT / "properties.jsonl").read_text().splitlines() if l.strip()]

import importlib, sys
sys.path.insert(0, str(ROOT))
CLAIMED = {}
for pr in props:
    i = pr["id"]
    if not (ROOT / "vtlib" / "checks" / f"{i.lower()}.py").exists():
        continue
    m = importlib.import_module(f"vtlib.checks.{i.lower()}")
    CLAIMED[i] = (
        getattr(m, "LEVEL", "exploration"),
        getattr(m, "TECHNIQUE", "property-based testing (Hypothesis): generated inputs against an explicit oracle"),
        getattr(m, "LEVEL_TEXT", None) or ("Bounded generated search, nothing proved. " + m.RULE),
        getattr(m, "LEVEL_NOTE", None) or "; ".join(getattr(m, "ASSUMPTIONS", [])) or "trusts vtlib's generators and reference model",
        f"DESIGN.md section 4/{i}",
    )
extra = {}
p = ROOT / "manifest_extra.json"
if p.exists():
    extra = json.loads(p.read_text())
CLAIMED.update({k: tuple(v) for k, v in extra.get("claimed", {}).items()})
NA = extra.get("not_applicable", {})

checks = []
for pr in props:
    i = pr["id"]
    if i not in CLAIMED:
        continue
    cat, tech, text, note, ref = CLAIMED[i]
    checks.append({
        "property_id": i,
        "quick_cmd": f"./vt check {i} --tier quick",
        "thorough_cmd": f"./vt check {i} --tier thorough",
        "evidence_file": f"evidence/{i}.json",
        "replay_cmd_template": f"./vt check {i} --replay {{path}}",
        "engine": "vtlib",
        "level_claimed": {"category": cat, "text": text, "design_ref": ref},
        "level_note": note,
        "technique": tech,
    })
na = []
for pr in props:
    if pr["id"] not in CLAIMED:
        na.append({"property_id": pr["id"], "reason": NA.get(pr["id"], "check not built yet in this session (planned; see DESIGN.md section 4) - not a limitation of the technique")})
man = {
    "version": 1,
    "setup_cmd": "./vt setup",
    "hooks": {
        "guard": "NAUNET_VERIF",
        "enable": "no instrumentation of /repo is needed: every observation point is a rendered artefact, a public object or a link-time substitute living in /verif",
        "baseline_off_cmd": "cd /repo && /venv/bin/python -m pytest -ra -q -p no:cacheprovider --timeout=900 --continue-on-collection-errors",
        "source_commits": [],
        "add_only": True,
    },
    "engines": [
        {"name": "vtlib", "path": "vtlib/", "serves_properties": [c["property_id"] for c in checks],
         "kind_free_text": "Hypothesis-driven generated search; generators in vtlib/gen, generated-C reader/interpreter in vtlib/ctext, compile-and-run shim in vtlib/cxx, checks in vtlib/checks"},
    ],
    "checks": checks,
    "not_applicable": na,
    "notes": "All checks: ./vt check <id> [--tier quick|thorough] [--replay F]; VERIF_SEED selects the Hypothesis seeds (seed*1000+shard). Exit 0 held / 1 VIOLATION / 2 harness error.",
}
(ROOT / "MANIFEST.json").write_text(json.dumps(man, indent=1))
print("claimed", [c["property_id"] for c in checks], "NA", len(na))
