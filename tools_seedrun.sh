#!/bin/sh
# usage: tools_seedrun.sh <patch.diff> <prop> [tier]  -- apply a seeded change to /repo, run the check, always revert
P="$(realpath "$1")"; ID="$2"; TIER="${3:-quick}"
git -C /repo apply "$P" || { echo "PATCH DOES NOT APPLY"; exit 3; }
cd /verif && VT_OUT=/tmp/vt-seedrun-out ./vt check "$ID" --tier "$TIER" 2>&1 | grep -E "VIOLATION|violation root|^\[C|HARNESS|KNOWN" | cut -c1-400
git -C /repo checkout -- . 
git -C /repo status --short | head -3
