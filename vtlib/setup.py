"""setup_cmd: make sure the third-party pieces the checks need are importable, offline."""
from __future__ import annotations
import subprocess
import sys


def main():
    try:
        import hypothesis  # noqa
    except Exception:
        subprocess.check_call(
            [sys.executable, "-m", "pip", "install", "--no-index", "--find-links", "/opt/veriftools/wheels", "hypothesis"]
        )
    import hypothesis
    import naunet
    from pathlib import Path

    deps = Path(__file__).resolve().parent.parent / ".deps"
    if not (deps / "atheris").exists():
        r = subprocess.run(
            [sys.executable, "-m", "pip", "install", "--no-index", "--find-links", "/opt/veriftools/wheels", "--target", str(deps), "atheris"],
            capture_output=True, text=True,
        )
        print("atheris:", "installed into .deps" if r.returncode == 0 else "NOT available (thorough-tier fuzz supplements will be skipped): " + r.stderr[-200:])

    print("hypothesis", hypothesis.__version__, "naunet from", naunet.__file__)
    try:
        from .cxx import build

        build.prepare()
    except ImportError:
        pass
    return 0
