"""C07 — reaction files of all six formats are decoded faithfully."""
from __future__ import annotations
import os
import tempfile

from hypothesis import strategies as st

from ..gen import lines as L
from ..gen import formats as F
from ..runner import CaseResult
from .. import netcase as N

PROPERTY = "C07"
LEVEL = "exploration"
TECHNIQUE = 'property-based testing (Hypothesis): encode/decode round trip with independent per-format encoders and code tables; atheris (libFuzzer) structure-aware supplement in the thorough tier'
RULE = (
    "Abstract reactions are encoded by my own per-format encoders (KIDA/Leeds fixed width, UMIST ':'-separated, "
    "KROME with generated @format orders, UCLCHEM, native) into files of 1-12 data lines with blank/whitespace-only "
    "lines and, for KROME, comment/@var/@common/@format lines interleaved, with and without trailing newline; the "
    "file is read through Network(filelist, fileformats). Oracle: one reaction per data line, in order; reactant / "
    "product name multisets, alpha/beta/gamma and window equal to the printed values, index, type through my own "
    "copy of the code tables, no marker token as a species. Non-trivial = file has a non-data line, or a line with "
    "a marker, a repeated reactant, 3 reactants or >=4 products; distinct = sha1 of the case."
)
ASSUMPTIONS = [
    "well-formedness is defined by my encoders (vtlib/gen/formats.py) written from the documented layouts",
    "UCLCHEM FREEZE lines carry the documented forced window (0, 30)",
    "the source tag is compared after stripping blanks (its exact form is C18's subject)",
    "Leeds rtype codes outside the published table (15-19) are generated without a type expectation",
]

MARKER_TOKENS = {"FREEZE", "DESORB", "VTMARK", "CR", "CRP", "PHOTON", "CRPHOT", "Photon", "XRAY", "M", "NAN", "FREEZE", "DESOH2", "DESCR", "DEUVCR", "THERM", "DIFF", "CHEMDES", ""}


def budget(tier):
    if tier == "quick":
        return dict(examples=120, shards=16)
    return dict(examples=3000, shards=16, shrink_calls=3000)


@st.composite
def _case(draw, nmax):
    case = draw(L.reaction_file(nmax=nmax))
    if not case.get("elements") and draw(st.integers(0, 3)) == 0:
        # a second file (merged databases): read through the constructor's file list or added to the populated network;
        # its lines may reuse index values of the first file - every line still decodes to what *it* says
        second = draw(L.reaction_file(fmt=draw(st.sampled_from(["kida", "umist", "leeds", "naunet"])), nmax=6))
        if not second.get("elements"):
            first_idx = [lr["idx"] for lr in case["expected"] if lr.get("idx", -1) not in (-1, None)]
            pos = [k for k, ln in enumerate(second["lines"]) if ln.strip() != ""]
            if first_idx and len(pos) == len(second["expected"]):
                for j, k in enumerate(pos):
                    if draw(st.booleans()):
                        old_idx = second["expected"][j]["idx"]
                        second["expected"][j]["idx"] = draw(st.sampled_from(first_idx))
                        try:
                            second["lines"][k] = L.encode(second["expected"][j], second.get("variant", {}))
                        except ValueError:  # the value does not fit this format's index column: keep the line as it was
                            second["expected"][j]["idx"] = old_idx
            case["second"] = second
            case["second_route"] = draw(st.sampled_from(["constructor-list", "add-from-file"]))
    if draw(st.integers(0, 4)) == 0:
        # earlier in the session a KROME file with directives was refused half-way (a misspelt species) and the error was caught
        case["prior_fault"] = draw(st.sampled_from(["@format:idx,R,P,P,rate\n@common:vt_leak\n@var:vt_z = 2.0*Tgas\n1,H,H2,H,1.0d-10\n2,Xx9,H,H,1.0d-10\n",
                                                    "@format:R,R,P,Tmin,Tmax,rate\nH,H,H2,10,300,1.0d-10\nH,Qq,H2,NONE,NONE,1.0d-10\n"]))
    if case.get("second"):
        pass
    elif case["fmt"] != "krome" and len(case["lines"]) >= 2 and draw(st.integers(0, 5)) == 0:
        # a database delivered in several files of one format: Network(filelist=[f1, ..., fK], fileformats="<one name>")
        case["split"] = draw(st.integers(2, 9))
    return case


def strategy(tier):
    return _case(12 if tier == "quick" else 40)


def fixed_cases(tier):
    out = []
    # every format: two data lines with a blank line in between and one at the end
    for fmt in ("kida", "umist", "leeds", "uclchem", "naunet"):
        lr1 = {"fmt": fmt, "r": ["C", "CH"], "p": ["C2", "H"], "markers_r": [], "a": 6.59e-11, "b": 0.0, "c": 0.0, "tmin": 10, "tmax": 300,
               "idx": -1 if fmt == "uclchem" else 4956, "code": {"kida": 3, "umist": "NN", "leeds": 1, "uclchem": "", "naunet": 100}[fmt]}
        lr2 = dict(lr1, r=["H", "C2"], p=["CH", "C"], a=4.67e-10, b=0.5, c=30450.0, tmin=1015, tmax=41000, idx=-1 if fmt == "uclchem" else 5154)
        out.append({"fmt": fmt, "lines": [L.encode(lr1), "", L.encode(lr2), "   "], "expected": [lr1, lr2], "variant": {}, "trailing_newline": True})
    return out


def read_network(case):
    from naunet.network import Network

    text = "\n".join(case["lines"]) + ("\n" if case.get("trailing_newline", True) else "")
    fd, path = tempfile.mkstemp(prefix="vt-", suffix="." + case["fmt"])
    try:
        with os.fdopen(fd, "w") as f:
            f.write(text)
        kw = {}
        if case.get("elements"):
            kw = dict(elements=list(case["elements"]), pseudo_elements=list(case["pseudo_elements"]))
        sec = case.get("second")
        if not sec and case.get("split"):
            # contiguous chunks of the lines (a chunk may be empty), one file each, one format name for all of them
            k = case["split"]
            n = len(case["lines"])
            cuts = [round(j * n / k) for j in range(k + 1)]
            paths = []
            try:
                for j in range(k):
                    fdj, pj = tempfile.mkstemp(prefix="vt-", suffix="." + case["fmt"])
                    paths.append(pj)
                    with os.fdopen(fdj, "w") as f:
                        chunk = case["lines"][cuts[j]:cuts[j + 1]]
                        f.write("\n".join(chunk) + ("\n" if chunk else ""))
                return Network(filelist=paths, fileformats=case["fmt"], **kw)
            finally:
                for pj in paths:
                    os.unlink(pj)
        if not sec:
            return Network(filelist=path, fileformats=case["fmt"], **kw)
        fd2, path2 = tempfile.mkstemp(prefix="vt-", suffix="." + sec["fmt"])
        try:
            with os.fdopen(fd2, "w") as f:
                f.write("\n".join(sec["lines"]) + ("\n" if sec.get("trailing_newline", True) else ""))
            if case.get("second_route") == "add-from-file":
                net = Network(filelist=path, fileformats=case["fmt"], **kw)
                net.add_reaction_from_file(path2, sec["fmt"])
                return net
            return Network(filelist=[path, path2], fileformats=[case["fmt"], sec["fmt"]], **kw)
        finally:
            os.unlink(path2)
    finally:
        os.unlink(path)


def compare(parsed, lr, variant, k, failures):
    fmt = lr["fmt"]
    rn = sorted(s.name for s in parsed.reactants)
    pn = sorted(s.name for s in parsed.products)
    if rn != sorted(lr["r"]):
        failures.append((f"decode/{fmt}/reactants", f"line {k}: reactants {rn} expected {sorted(lr['r'])}"))
    if pn != sorted(lr["p"]):
        failures.append((f"decode/{fmt}/products", f"line {k}: products {pn} expected {sorted(lr['p'])}"))
    for s in parsed.reactants + parsed.products:
        if s.name in MARKER_TOKENS:
            failures.append((f"decode/{fmt}/marker-as-species", f"line {k}: marker token {s.name!r} became a species"))
    a, b, c, tmin, tmax = L.printed_values(lr, variant)
    got = (parsed.alpha, parsed.beta, parsed.gamma)
    if fmt != "krome" and got != (a, b, c):
        failures.append((f"decode/{fmt}/coefficients", f"line {k}: alpha,beta,gamma = {got} expected {(a, b, c)}"))
    if (float(parsed.temp_min), float(parsed.temp_max)) != (tmin, tmax):
        failures.append((f"decode/{fmt}/window", f"line {k}: window {(parsed.temp_min, parsed.temp_max)} expected {(tmin, tmax)}"))
    if parsed.idxfromfile != lr["idx"]:
        failures.append((f"decode/{fmt}/index", f"line {k}: index {parsed.idxfromfile} expected {lr['idx']}"))
    want_t = F.expected_type(fmt, lr["code"])
    if want_t is not None:
        try:
            got_t = int(parsed.reaction_type)
        except Exception:
            got_t = parsed.reaction_type
        if got_t != want_t:
            failures.append((f"decode/{fmt}/type", f"line {k}: code {lr['code']!r} -> type {got_t} expected {want_t}"))
    if (parsed.source or "").strip() != fmt:
        failures.append((f"decode/{fmt}/source", f"line {k}: source {parsed.source!r}"))
    if fmt == "krome" and getattr(parsed, "rate_string", None) != lr["rate"].replace("dexp", "exp"):
        failures.append(("decode/krome/rate", f"line {k}: rate {parsed.rate_string!r} expected {lr['rate']!r}"))


def check_case(case, tier):
    N.reset_naunet_state()
    failures = []
    fmt = case["fmt"]
    labels = [f"fmt-{fmt}"]
    nondata = len(case["lines"]) - len(case["expected"])
    if nondata:
        labels.append("non-data-lines")
    if any(l.strip() == "" for l in case["lines"]):
        labels.append("blank-line")
    if case.get("elements"):
        labels.append("custom-symbol-lists")
    if case.get("split"):
        labels.append(f"split-into-{'2-4' if case['split'] <= 4 else '5-9'}-files-one-format-name")
    second = case.get("second")
    if second:
        labels += ["two-files", f"second-{case['second_route']}"]
        if {lr["idx"] for lr in second["expected"]} & {lr.get("idx") for lr in case["expected"]} - {-1}:
            labels.append("index-reused-by-second-file")
    if case.get("prior_fault"):
        labels.append("after-a-refused-krome-file")
        from naunet.network import Network

        fd0, p0 = tempfile.mkstemp(prefix="vt-", suffix=".krome")
        with os.fdopen(fd0, "w") as f0:
            f0.write(case["prior_fault"])
        try:
            Network(filelist=p0, fileformats="krome")
            raise RuntimeError("harness: the faulty KROME file was accepted")
        except RuntimeError as e0:
            if str(e0).startswith("harness:"):
                raise
        except Exception:
            pass
        finally:
            os.unlink(p0)
    if case.get("standard_layout"):
        labels.append("krome-standard-layout-no-directive")
    try:
        net = read_network(case)
    except Exception as e:
        import traceback

        tb = traceback.extract_tb(e.__traceback__)
        where = next((f"{fr.filename.split('/')[-1]}:{fr.name}" for fr in reversed(tb) if "/naunet/" in fr.filename), "?")
        blank = "/blank-line" if any(l.strip() == "" for l in case["lines"]) else ""
        failures.append((f"decode/{fmt}/raises{blank}/{type(e).__name__}@{where}", f"{type(e).__name__}: {e}"))
        net = None
    if net is not None:
        rl = net.reaction_list
        if second and len(rl) == len(case["expected"]) + len(second["expected"]):
            for k, (parsed, lr) in enumerate(zip(rl[len(case["expected"]):], second["expected"])):
                sub = []
                compare(parsed, lr, second.get("variant", {}), k, sub)
                failures += [(key + "/second-file", msg) for key, msg in sub]
            rl = rl[: len(case["expected"])]
        elif second:
            failures.append((f"decode/{fmt}+{second['fmt']}/count-two-files", f"{len(rl)} reactions for {len(case['expected'])} + {len(second['expected'])} data lines"))
            rl = rl[: len(case["expected"])]
        if len(rl) != len(case["expected"]):
            empties = sum(1 for r in rl if not r.reactants and not r.products)
            kind = "empty-reactions-from-nondata-lines" if empties and len(rl) - empties == len(case["expected"]) else "count"
            failures.append((f"decode/{fmt}/{kind}", f"{len(rl)} reactions for {len(case['expected'])} data lines ({empties} empty)"))
        else:
            for k, (parsed, lr) in enumerate(zip(rl, case["expected"])):
                compare(parsed, lr, case.get("variant", {}), k, failures)
    feats = any(lr.get("markers_r") or len(set(lr["r"])) < len(lr["r"]) or len(lr["r"]) >= 3 or len(lr["p"]) >= 4 for lr in case["expected"])
    if any(lr.get("markers_r") for lr in case["expected"]):
        labels.append("marker")
    sample = {"fmt": fmt, "lines": case["lines"][:4], "n_data": len(case["expected"])}
    return CaseResult(failures, bool(nondata or feats), labels, sample=sample)


def post_phase(tier, seed):
    """Thorough tier: coverage-guided supplement (atheris) over the same oracle, empty starting corpus."""
    if tier != "thorough":
        return {}
    from ..fuzz import supplement

    return supplement(PROPERTY, seed, 60000)
