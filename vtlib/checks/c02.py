"""C02 — analytic Jacobian is the exact derivative of the emitted right-hand side."""
from __future__ import annotations

from hypothesis import strategies as st

from ..gen import model as M
from ..runner import CaseResult
from .. import netcase as N
from .. import cudacase as CU
from ..ctext.extract import LayoutViolation
from ..ctext.lexer import CInvalidC, CParseError, parse_expression
from . import c01

PROPERTY = "C02"
LEVEL = "exploration"
TECHNIQUE = 'property-based testing (Hypothesis): oracle = symbolic derivative of the emitted RHS polynomial, both directions (emitted entries correct, omitted entries identically zero); unparsable text judged by clang++ -fsyntax-only; a fraction of the cases executes the cuSPARSE kernels on a batch of cells (host emulation of the CUDA launch) and compares every cell with the dense back-end'
RULE = (
    "C01's generated networks plus ODE modifiers of every shape (0-3 terms, 0/1/2/3 dependency species, repeated "
    "dependencies, signed/arithmetic factors) rendered for all four back-ends; every emitted Jacobian entry "
    "(IJth / data[]+rowptrs/colvals / InitJac+kernel / j(r,c)) is compared, as an exact polynomial, with the "
    "symbolic derivative of the *emitted* ydot polynomial w.r.t. y[j] (all non-y symbols held fixed), and every "
    "coordinate not emitted must have an identically-zero derivative. Non-trivial = some RHS monomial has degree "
    ">=2 in one species, or a modifier with >=2 dependencies, or a thermal row, or a catalyst; distinct = sha1 of "
    "the abstract case."
)
ASSUMPTIONS = [
    "'rate coefficients held fixed' is extended to every non-y[...] symbol of the emitted text (npar, gamma, modifier factors)",
    "text my reader cannot parse counts as a violation only when clang++ -fsyntax-only also rejects the statement",
    "cuSPARSE back-end: kernel text for every case; for a fraction of the cases the rendered .cu files are compiled as C++ against a host emulation of the CUDA launch (vtlib/cxx/shim/vt_cuda.h, launch syntax rewritten mechanically) and run on 2-5 cells",
]


def budget(tier):
    if tier == "quick":
        return dict(examples=30, shards=16)
    return dict(examples=250, shards=16, shrink_calls=2000)


@st.composite
def _case(draw, big=False):
    case = draw(M.network(max_species=20 if big else 9, max_reactions=40 if big else 10, thermal=True, modifiers=True))
    case["route"] = "api"
    # a fraction of the cases also executes JacKernel on a batch of cells (host emulation of the CUDA launch)
    thermal = bool(case["cooling"] or case["heating"])
    case["cuda"] = draw(CU.batch()) if draw(st.integers(0, 3 if (thermal or case["ode_mod"]) else 9)) == 0 else None
    return case


def strategy(tier):
    return _case(big=(tier == "thorough"))


def fixed_cases(tier):
    out = []
    for c in c01.fixed_cases(tier):
        out.append(c)
    base = c01.fixed_cases(tier)[2]
    # modifiers with 1, 2 (distinct), 2 (repeated) and 3 dependencies
    for deps in ([0], [0, 1], [0, 0], [0, 1, 3], []):
        out.append(dict(base, ode_mod=[{"target": 1, "factor": "-2.0 * nH", "deps": deps}]))
    return out


def check_jac(case, proj, failures, tag):
    try:
        fex = proj.fex_polys()
    except CInvalidC as e:
        failures.append(("fex/invalid-c", f"{tag}: {e}"))
        return
    except CParseError as e:
        bad = _locate_invalid(proj, "fex")
        if not bad:
            raise
        failures.append(("fex/invalid-c" + _why(case), f"{tag}: {bad[0]}"))
        return
    try:
        lay = proj.jac_layout()
    except LayoutViolation as e:
        failures.append(("jac/layout", f"{tag}: {e}"))
        return
    except CInvalidC as e:
        failures.append(("jac/invalid-c", f"{tag}: {e}"))
        return
    except CParseError:
        bad = _locate_invalid(proj, "jac")
        if not bad:
            raise
        failures.append(("jac/invalid-c" + _why(case), f"{tag}: {bad[0]}"))
        return
    entries = lay["entries"]
    neq = proj.neq
    for r in range(neq):
        f = fex.get(r)
        if f is None:
            continue
        for c in range(neq):
            d = f.derivative(f"y[{c}]")
            e = entries.get((r, c))
            if e is None:
                if not d.is_zero():
                    kind = "thermal-row" if r == proj.ints.get("IDX_TGAS", -1) else "species-row"
                    failures.append((f"jac/missing-entry/{kind}", f"{tag}: d ydot[{r}]/d y[{c}] = {d} but no entry is emitted"))
            elif e != d:
                kind = "thermal-row" if r == proj.ints.get("IDX_TGAS", -1) else "species-row"
                src = "/modifier" if _touches_modifier(case, proj, r) else ""
                failures.append((f"jac/wrong-entry/{kind}{src}", f"{tag}: J({r},{c}) = {e} but d ydot[{r}]/d y[{c}] = {d}"))


def _why(case):
    if any(len(m["deps"]) == 0 for m in case.get("ode_mod", [])):
        return "/modifier-0dep"
    if any(len(m["deps"]) >= 2 for m in case.get("ode_mod", [])):
        return "/modifier-multidep"
    return ""


def _touches_modifier(case, proj, row):
    if not case.get("ode_mod"):
        return False
    slots = N.slot_of(case, proj)
    return any(slots.get(m["target"]) == row for m in case["ode_mod"])


def _locate_invalid(proj, which):
    from ..cxx.syntax import compiler_accepts_expr

    bad = []
    for lhs, rhs in proj.raw_statements(which):
        try:
            parse_expression(rhs)
        except CInvalidC as e:
            bad.append(f"{lhs} = {rhs[:160]} :: {e}")
        except CParseError as e:
            ok, err = compiler_accepts_expr(rhs, proj.ints)
            if ok:
                raise
            bad.append(f"{lhs} = {rhs[:160]} :: rejected by clang++ ({err.strip().splitlines()[0] if err.strip() else e})")
    return bad


def check_case(case, tier):
    N.reset_naunet_state()
    failures = []
    extra = {}
    labels = N.network_features(case)
    with N.Scratch() as d, N.ThermalPatch(case):
        try:
            net = N.build_network(case)
            projs = N.render(net, d)
        except Exception as e:
            import traceback

            tb = traceback.extract_tb(e.__traceback__)
            where = next((f"{fr.filename.split('/')[-1]}:{fr.name}" for fr in reversed(tb) if "/naunet/" in fr.filename), "?")
            failures.append((f"render-raises/{type(e).__name__}@{where}", f"{type(e).__name__}: {e}"))
            projs = {}
        for method, proj in projs.items():
            check_jac(case, proj, failures, method)
        if case.get("cuda") and projs and not failures:
            labels.append("cuda-batch-executed")
            full = N.render(net, d / "cu", backends=[("cvode", "dense", "cpu"), ("cvode", "cusparse", "gpu")], templates="all")
            f2, info = CU.run_batch(case["cuda"], full["dense"], full["cusparse"])
            # C02 is about the Jacobian: discrepancies of the right-hand side belong to C01
            failures += [(k, m) for k, m in f2 if "/fex/" not in k]
            extra = dict(info)
    nontrivial = any(
        l in labels for l in ("repeated-reactant", "three-body", "catalyst", "thermal", "modifier-multidep")
    )
    return CaseResult(failures, nontrivial, labels, sample=N.abridge(case), extra=extra)
