"""C08 — species names are decomposed into the right elements, charge and phase."""
from __future__ import annotations

from hypothesis import strategies as st

from ..runner import CaseResult
from .. import netcase as N

PROPERTY = "C08"
LEVEL = "exploration"
TECHNIQUE = 'property-based testing (Hypothesis): names spelled from generated compositions over five symbol-list configurations + exhaustive symbol-pair corpus + injected foreign characters; atheris supplement with a reference tokenizer in the thorough tier'
RULE = (
    "Names are spelled from generated compositions ([prefix][label](Symbol[count])+[charges]) over three "
    "configurations: the default symbol lists; the upper-case UCLCHEM-style list with the replacement table; the "
    "Leeds-style list with surface prefix 'G' and grain symbols with group numbers; charges -3..+4; counts 1 written "
    "or omitted, 2..12. Every ordered pair of configured symbols is enumerated exhaustively as a fixed corpus. "
    "Oracle: element_count / charge / is_surface / gasname / basename / is_atom / n_atoms equal the generated "
    "composition, massnumber is additive over Species(atom).massnumber and equals the values pinned by the repo's "
    "tests for H, D, He, C, N, O, the name after replacement equals the re-spelling. Negative half: one injected "
    "foreign character must raise. Names whose intended tokenisation is straddled by a longer configured symbol are "
    "discarded (counted). User lists are installed in one go or as a history of set/add/remove calls with parses in between (same final lists). Non-trivial = a two-letter symbol adjacent to a one-letter symbol that is its prefix or "
    "suffix letter, a count >= 10, a replacement, a label, a grain, or an injected character."
)
ASSUMPTIONS = [
    "mass numbers of single atoms are read from naunet itself (Species(atom).massnumber); additivity and the six pinned values are checked",
    "the excited-state marker '*' is outside this property's statement (C09 mentions it)",
]

CFG = {
    "default": dict(
        elements=["e", "E", "H", "D", "He", "C", "N", "O", "F", "Na", "Mg", "Al", "Si", "P", "S", "Cl", "Ar", "Ca", "Fe", "Ni"],
        pseudo=["CR", "CRP", "XRAY", "Photon", "PHOTON", "CRPHOT", "X", "M", "p", "o", "m", "c-", "l-", r"\*", "g"],
        replacement={},
        kwargs={},
        labels=["o", "p", "m", "c-", "l-"],
        install=False,
    ),
    "upper": dict(
        elements=["E", "H", "D", "HE", "C", "N", "O", "MG", "SI", "S", "CL"],
        pseudo=["CR", "CRP", "PHOTON", "CRPHOT"],
        replacement={"E": "e", "HE": "He", "MG": "Mg", "SI": "Si", "CL": "Cl"},
        kwargs={},
        labels=[],
        install=True,
    ),
    "leeds": dict(
        elements=["e", "H", "He", "C", "N", "O", "F", "Na", "Mg", "Al", "Si", "P", "S", "Cl", "Ar", "Ca", "Fe", "Ge"],  # Ge: a symbol that contains the prefix letter
        pseudo=["CRP", "XRAY", "PHOTON", "CRPHOT"],
        replacement={},
        kwargs={"surface_prefix": "G"},
        labels=[],
        install=True,
    ),
    "upper-G": dict(
        elements=["E", "H", "D", "HE", "C", "N", "O", "MG", "SI", "S", "CL"],
        pseudo=["CR", "CRP", "PHOTON", "CRPHOT"],
        replacement={"E": "e", "HE": "He", "MG": "Mg", "SI": "Si", "CL": "Cl"},
        kwargs={"surface_prefix": "G"},
        labels=[],
        install=True,
    ),
    "isotopes": dict(
        elements=["e", "H", "D", "T", "He", "He3", "C", "O", "N", "13C", "18O", "15N"],  # isotope symbols may start with a digit (tests/test_species.py adds 13C)
        pseudo=["CR", "CRP", "Photon", "o", "p"],
        replacement={},
        kwargs={},
        labels=["o", "p"],
        install=True,
    ),
    "upper-partial": dict(
        # a partial renaming table: some keys (E, HE) occur inside symbols that are *not* renamed (NE, FE)
        elements=["E", "H", "D", "HE", "C", "N", "O", "NE", "MG", "SI", "S", "CL", "FE"],
        pseudo=["CR", "CRP", "PHOTON", "CRPHOT"],
        replacement={"E": "e", "HE": "He", "MG": "Mg"},
        kwargs={},
        labels=[],
        install=True,
    ),
    "elements-only": dict(
        # only the element list is configured (naunet new / Network(elements=[...])): no labels, no markers at all
        elements=["e", "H", "D", "He", "C", "N", "O", "Si", "S"],
        pseudo=[],
        replacement={},
        kwargs={},
        labels=[],
        install=True,
    ),
    "upper-norepl": dict(
        elements=["E", "H", "D", "HE", "C", "N", "O", "MG", "SI", "S", "CL"],
        pseudo=["CR", "CRP", "PHOTON", "CRPHOT"],
        replacement={},
        kwargs={},
        labels=[],
        install=True,
    ),
}
PINNED = {"H": 1.0, "D": 2.0, "He": 4.0, "C": 12.0, "N": 14.0, "O": 16.0, "T": 3.0, "He3": 3.0}  # H..O pinned by the repo's tests; T, He3 = protons + neutrons of the isotope table
FOREIGN = ["?", "_", " ", "!", "q", "z", "x", "%", "\t", "j", "o", "p", "m", "*", "M", "X", "g"]  # (the last seven are symbols of the *default* pseudo-element list only)


def budget(tier):
    if tier == "quick":
        return dict(examples=1500, shards=16)
    return dict(examples=40000, shards=16, shrink_calls=5000)


@st.composite
def _case(draw):
    cfg = draw(st.sampled_from(["default", "default", "upper", "leeds", "upper-norepl", "upper-G", "isotopes", "upper-partial", "elements-only"]))
    c = CFG[cfg]
    kind = draw(st.sampled_from(["mol"] * 8 + ["grain", "electron"]))
    case = {"cfg": cfg, "kind": kind, "tokens": [], "label": "", "surface": False, "group": 0, "charge": 0, "inject": None, "explicit1": []}
    if kind == "grain":
        case["group"] = draw(st.sampled_from([0, 0, 1, 2, 3, 12]))
        case["group_written"] = draw(st.booleans()) if case["group"] == 0 else True
        case["charge"] = draw(st.sampled_from([0, 0, -1, 1, -2, 2]))
    elif kind == "electron":
        case["tokens"] = [[draw(st.sampled_from([e for e in c["elements"] if e.upper() == "E"])), 1]]
        case["charge"] = draw(st.sampled_from([-1, 0]))  # 'e-' / 'E-' or bare 'E' / 'e'
    else:
        elems = [e for e in c["elements"] if e.upper() != "E"]
        n = draw(st.integers(1, 4))
        toks = []
        for _ in range(n):
            sym = draw(st.sampled_from(elems))
            cnt = draw(st.sampled_from([1, 1, 1, 2, 2, 3, 4, 5, 9, 10, 11, 12]))
            if toks and toks[-1][0] == sym:
                toks[-1][1] += cnt
            else:
                toks.append([sym, cnt])
        case["tokens"] = toks
        case["explicit1"] = [draw(st.integers(0, 7)) == 0 for _ in toks]  # write the count 1 explicitly
        case["charge"] = draw(st.sampled_from([0, 0, 0, 1, 1, -1, 2, -2, 3, -3, 4]))
        case["surface"] = draw(st.integers(0, 3)) == 0
        # ice on a grain-size group: the group number follows the prefix (#1CO); not next to a digit-first isotope symbol,
        # where "group digits" and "symbol digits" would have two readings
        if case["surface"] and not toks[0][0][0].isdigit():
            case["sgroup"] = draw(st.sampled_from([0, 0, 0, 1, 2, 12]))
            # group 0 may be written out, as it is for grains (GRAIN0): #0CO is #CO
            case["sgroup0_written"] = case["sgroup"] == 0 and draw(st.integers(0, 3)) == 0
        if c["labels"] and draw(st.integers(0, 5)) == 0:
            case["label"] = draw(st.sampled_from(c["labels"]))
    if draw(st.integers(0, 5)) == 0:
        case["inject"] = {"pos": draw(st.integers(0, 30)), "ch": draw(st.sampled_from(FOREIGN))}
    # how the user lists reach the class: in one go, or as a history (a shorter list, a first parse, then add_known_* of the
    # rest; or a longer list, a first parse, then remove_known_*).  The final lists are the same in content and order.
    if c["install"]:
        case["route"] = draw(st.sampled_from(["set", "set", "add", "add", "remove"]))
        if case["route"] == "add":
            case["split"] = [draw(st.integers(1, len(c["elements"]))), draw(st.integers(0, len(c["pseudo"])))]
        case["pseudo_first"] = draw(st.booleans())
    return case


def strategy(tier):
    return _case()


def fixed_cases(tier):
    out = []
    for cfg, c in CFG.items():
        syms = list(c["elements"])
        for a in syms:
            for b in syms:
                for ca, cb in ((1, 1), (2, 1), (1, 3)):
                    toks = [[a, ca + cb]] if a == b else [[a, ca], [b, cb]]
                    out.append({"cfg": cfg, "kind": "mol", "tokens": toks, "label": "", "surface": False, "group": 0, "charge": 0, "inject": None, "explicit1": [False] * len(toks)})
        for a in syms:
            for q in (-1, 1, 2):
                out.append({"cfg": cfg, "kind": "mol", "tokens": [[a, 1]], "label": "", "surface": True, "group": 0, "charge": q, "inject": None, "explicit1": [False]})
    return out


def prefix_of(case, c):
    """Surface prefix as written: the prefix symbol followed by the grain-size group number (omitted for group 0)."""
    if not case.get("surface"):
        return ""
    return c["kwargs"].get("surface_prefix", "#") + (str(case["sgroup"]) if case.get("sgroup") else "0" if case.get("sgroup0_written") else "")


def spell(case, c):
    pre = prefix_of(case, c)
    q = case["charge"]
    ch = "+" * q if q > 0 else "-" * (-q)
    if case["kind"] == "grain":
        gs = c["kwargs"].get("grain_symbol", "GRAIN")
        return f"{gs}{case['group'] if case.get('group_written', True) else ''}{ch}", []
    body = ""
    spans = []
    for (sym, n), ex in zip(case["tokens"], case["explicit1"] or [False] * len(case["tokens"])):
        start = len(pre) + len(case["label"]) + len(body)
        body += sym
        spans.append((start, start + len(sym), sym))
        if n != 1 or ex:
            body += str(n)
    return f"{pre}{case['label']}{body}{ch}", spans


def ambiguous(name, spans, c, case):
    """True if a configured multi-character symbol occurs in the name at a span that is not an intended token."""
    intended = {(a, b) for a, b, _ in spans}
    lab = case["label"]
    pre = prefix_of(case, c)
    if lab:
        intended.add((len(pre), len(pre) + len(lab)))
    symbols = [s.replace("\\", "") for s in c["elements"] + c["pseudo"]] + [c["kwargs"].get("grain_symbol", "GRAIN"), c["kwargs"].get("surface_prefix", "#")]
    core = name.rstrip("+-") if not name.rstrip("+-") == "" else name
    for s in symbols:
        if len(s) < 1:
            continue
        i = core.find(s)
        while i >= 0:
            sp = (i, i + len(s))
            if sp not in intended and not (case["surface"] and sp == (0, len(c["kwargs"].get("surface_prefix", "#")))):
                # an occurrence that is not an intended token: harmless only if it lies inside a longer intended token
                inside = any(a <= sp[0] and sp[1] <= b and (b - a) > len(s) for a, b in intended)
                if not inside:
                    return True
            i = core.find(s, i + 1)
    return False


def ref_parse(name, c):
    """Reference reading of a raw name by the documented rule (trailing charge signs, longest symbol first,
    digits after a symbol are its count). Returns None when the name is not well-formed."""
    core = name
    while core.endswith("+"):
        core = core[:-1]
    while core.endswith("-"):
        core = core[:-1]
    grain = c["kwargs"].get("grain_symbol", "GRAIN")
    prefix = c["kwargs"].get("surface_prefix", "#")
    syms = [x.replace("\\", "") for x in c["elements"] + c["pseudo"]] + [grain, prefix]
    order = sorted(range(len(syms)), key=lambda i: -len(syms[i]))
    masked = list(core)
    found = []
    for i in order:
        sym = syms[i]
        if not sym:
            continue
        txt = "".join(masked)
        pos = txt.find(sym)
        while pos >= 0:
            found.append((pos, pos + len(sym), sym))
            for k in range(pos, pos + len(sym)):
                masked[k] = "\0"
            txt = "".join(masked)
            pos = txt.find(sym, pos + len(sym))
    found.sort()
    if core == "":
        return {}  # only charge signs: nothing to decompose (degenerate, not ill-formed)
    if not found or found[0][0] != 0:
        return None
    comp = {}
    pseudo = {x.replace("\\", "") for x in c["pseudo"]}
    seen_grain = seen_prefix = False
    for n, (a, b, sym) in enumerate(found):
        nxt = found[n + 1][0] if n + 1 < len(found) else len(core)
        gap = core[b:nxt]
        if gap and not (gap.isascii() and gap.isdigit()):
            return None
        cnt = int(gap) if gap else None
        sym = c["replacement"].get(sym, sym)
        if sym in pseudo:
            continue
        if sym == prefix:
            if seen_prefix:
                return None
            seen_prefix = True
            continue
        if sym == grain:
            if seen_grain:
                return None
            seen_grain = True
            comp[sym] = comp.get(sym, 0) + 1
            continue
        comp[sym] = comp.get(sym, 0) + (cnt if cnt and cnt > 0 else 1)
    return comp


def check_raw(case):
    from naunet.species import Species

    c = CFG[case["cfg"]]
    name = case["name"]
    try:
        sp = Species(name, **c["kwargs"])
    except Exception:
        return CaseResult([], False, [f"cfg-{case['cfg']}", "raw-rejected"], sample={"name": name, "outcome": "rejected"})
    want = ref_parse(name, c)
    failures = []
    if want is None:
        failures.append(("raw/ill-formed-name-accepted", f"Species({name!r}) [{case['cfg']}] was accepted with element_count={dict(sp.element_count)} although the name is not made of configured symbols, counts and charge signs"))
    elif dict(sp.element_count) != want:
        failures.append(("raw/element-count", f"Species({name!r}) [{case['cfg']}].element_count = {dict(sp.element_count)} but the longest-symbol-first reading gives {want}"))
    return CaseResult(failures, True, [f"cfg-{case['cfg']}", "raw-accepted"], sample={"name": name, "expect": want})


EXTRA_ELEMENTS, EXTRA_PSEUDO = ["Zz", "QQ"], ["QRP"]


def install(case, c):
    """Install the user lists of configuration c through the route of the case; whatever the route, the lists end up as c says."""
    from naunet.species import Species

    route = case.get("route", "set")
    if route == "set":
        Species.set_known_elements(list(c["elements"]))
        Species.set_known_pseudoelements(list(c["pseudo"]))
        Species._replacement = dict(c["replacement"])
        return
    if route == "add":
        ke, kp = case["split"]
        first_e, first_p = list(c["elements"][:ke]), list(c["pseudo"][:kp])
    else:
        first_e, first_p = list(c["elements"]) + EXTRA_ELEMENTS, list(c["pseudo"]) + EXTRA_PSEUDO
    Species.set_known_elements(first_e)
    Species.set_known_pseudoelements(first_p)
    Species._replacement = dict(c["replacement"])
    # looks at names under the preliminary lists, after every step of the history (their outcome is not judged: the lists are
    # not the configured ones yet)
    warm = [first_e[0] + "2", "".join(first_e[:2])]
    if case["kind"] != "raw":
        warm.append(spell(case, c)[0])

    def look():
        for w in warm:
            try:
                sp = Species(w, **c["kwargs"])
                sp.element_count, sp.charge, sp.is_surface
            except Exception:
                pass

    look()
    if route == "add":
        steps = [lambda: Species.add_known_elements(list(c["elements"][ke:])), lambda: Species.add_known_pseudoelements(list(c["pseudo"][kp:]))]
    else:
        steps = [lambda: Species.remove_known_elements(list(EXTRA_ELEMENTS)), lambda: Species.remove_known_pseudoelements(list(EXTRA_PSEUDO))]
    if case.get("pseudo_first"):
        steps.reverse()
    steps[0]()
    look()
    steps[1]()
    assert Species._known_elements == list(c["elements"]) and Species._known_pseudoelements == list(c["pseudo"]), "harness: route did not install the configured lists"


def check_case(case, tier):
    from naunet.species import Species

    N.reset_naunet_state()
    c = CFG[case["cfg"]]
    route_labels = []
    if c["install"]:
        install(case, c)
        route_labels = [f"route-{case.get('route', 'set')}"]
    if case["kind"] == "raw":
        return check_raw(case)
    name, spans = spell(case, c)
    labels = [f"cfg-{case['cfg']}", f"kind-{case['kind']}"] + route_labels
    failures = []
    rep = c["replacement"]

    if case["kind"] == "mol" and ambiguous(name, spans, c, case):
        return CaseResult(discarded=True)

    if case.get("inject"):
        inj = case["inject"]
        core_len = len(name.rstrip("+-")) if case["charge"] else len(name)
        pos = inj["pos"] % (core_len + 1)
        bad = name[:pos] + inj["ch"] + name[pos:]
        allsyms = "".join(c["elements"] + c["pseudo"] + ["GRAIN", "#", "G"])
        if inj["ch"] in allsyms:
            return CaseResult(discarded=True)
        labels.append("injected-foreign-char")
        try:
            sp = Species(bad, **c["kwargs"])
        except Exception:
            return CaseResult([], True, labels, sample={"name": bad, "expect": "rejected"})
        failures.append(("reject/foreign-char-accepted", f"Species({bad!r}) was accepted: element_count={sp.element_count}, name={sp.name!r}"))
        return CaseResult(failures, True, labels, sample={"name": bad, "expect": "rejected"})

    try:
        sp = Species(name, **c["kwargs"])
    except Exception as e:
        failures.append((f"parse/raises/{type(e).__name__}", f"Species({name!r}) [{case['cfg']}]: {type(e).__name__}: {e}"))
        return CaseResult(failures, True, labels, sample={"name": name})

    r = lambda s: rep.get(s, s)
    if case["kind"] == "grain":
        want_comp = {c["kwargs"].get("grain_symbol", "GRAIN"): 1}
        want_name = name
        labels.append("grain")
    else:
        want_comp = {}
        for sym, n in case["tokens"]:
            want_comp[r(sym)] = want_comp.get(r(sym), 0) + n
        pre = prefix_of(case, c)
        body = ""
        for (sym, n), ex in zip(case["tokens"], case["explicit1"] or [False] * len(case["tokens"])):
            body += r(sym) + (str(n) if (n != 1 or ex) else "")
        q = case["charge"]
        want_name = f"{pre}{case['label']}{body}{'+' * q if q > 0 else '-' * (-q)}"
    key = f"{case['cfg']}"
    if dict(sp.element_count) != want_comp:
        failures.append((f"parse/element-count/{key}", f"Species({name!r}).element_count = {dict(sp.element_count)} expected {want_comp}"))
    is_electron = case["kind"] == "electron"
    want_q = -1 if is_electron else case["charge"]
    if sp.charge != want_q:
        failures.append((f"parse/charge/{key}", f"Species({name!r}).charge = {sp.charge} expected {want_q}"))
    if bool(sp.is_surface) != bool(case["surface"]):
        failures.append((f"parse/is-surface/{key}", f"Species({name!r}).is_surface = {sp.is_surface}"))
    if case.get("surface") and case["kind"] == "mol" and sp.is_surface and sp.surface_group != case.get("sgroup", 0):
        failures.append((f"parse/surface-group/{key}", f"Species({name!r}).surface_group = {sp.surface_group} expected {case.get('sgroup', 0)}"))
    if rep and sp.name != want_name:
        failures.append((f"parse/renamed/{key}", f"Species({name!r}).name = {sp.name!r} expected {want_name!r}"))
    if not rep and sp.name != name:
        failures.append((f"parse/name-changed/{key}", f"Species({name!r}).name = {sp.name!r}"))
    if case["kind"] == "mol":
        pre = prefix_of(case, c)
        want_gas = want_name[len(pre):]
        if sp.gasname != want_gas:
            failures.append((f"parse/gasname/{key}", f"Species({name!r}).gasname = {sp.gasname!r} expected {want_gas!r}"))
        want_base = want_gas.rstrip("+-") if case["charge"] else want_gas
        if sp.basename != want_base:
            failures.append((f"parse/basename/{key}", f"Species({name!r}).basename = {sp.basename!r} expected {want_base!r}"))
        natoms = sum(n for _, n in case["tokens"])
        if sp.n_atoms != natoms:
            failures.append((f"parse/n-atoms/{key}", f"Species({name!r}).n_atoms = {sp.n_atoms} expected {natoms}"))
        want_atom = natoms == 1 and case["charge"] == 0 and not case["surface"]
        if bool(sp.is_atom) != want_atom:
            failures.append((f"parse/is-atom/{key}", f"Species({name!r}).is_atom = {sp.is_atom} expected {want_atom}"))
        # mass number: additive over the atoms (only meaningful when the symbols are the table's symbols)
        if case["cfg"] != "upper-norepl":
            tot = 0.0
            for sym, n in case["tokens"]:
                a = Species(sym, **{k: v for k, v in c["kwargs"].items()}).massnumber if r(sym).upper() != "E" else 0.0
                if r(sym) in PINNED and a != PINNED[r(sym)]:
                    failures.append(("mass/pinned-value", f"massnumber of {r(sym)} = {a} expected {PINNED[r(sym)]}"))
                tot += n * a
            if abs(sp.massnumber - tot) > 1e-9:
                failures.append((f"mass/not-additive/{key}", f"Species({name!r}).massnumber = {sp.massnumber} expected {tot}"))
    elif case["kind"] == "grain":
        if not sp.is_grain or sp.grain_group != case["group"]:
            failures.append((f"parse/grain-group/{key}", f"Species({name!r}): is_grain={sp.is_grain} group={sp.grain_group} expected {case['group']}"))
        if sp.n_atoms != 1:
            failures.append((f"parse/grain-n-atoms/{key}", f"Species({name!r}).n_atoms = {sp.n_atoms} expected 1"))
        if bool(sp.is_atom) != (case["charge"] == 0):
            failures.append((f"parse/grain-is-atom/{key}", f"Species({name!r}).is_atom = {sp.is_atom}"))
    elif is_electron:
        if not sp.is_electron or sp.n_atoms != 0 or sp.is_atom:
            failures.append((f"parse/electron/{key}", f"Species({name!r}): is_electron={sp.is_electron} n_atoms={sp.n_atoms} is_atom={sp.is_atom}"))

    # non-trivial classification
    syms = [t[0] for t in case["tokens"]]
    adj = False
    for x, y in zip(syms, syms[1:]):
        if (len(x) == 2 and len(y) == 1 and (x[0] == y or x[1].upper() == y.upper())) or (len(y) == 2 and len(x) == 1 and (y[0] == x or y[1].upper() == x.upper())):
            adj = True
    if adj:
        labels.append("two-letter-next-to-its-letter")
    big = any(n >= 10 for _, n in case["tokens"])
    if big:
        labels.append("count>=10")
    replaced = any(t[0] in rep for t in case["tokens"])
    if replaced:
        labels.append("replacement")
    nontrivial = adj or big or replaced or bool(case["label"]) or case["kind"] == "grain" or len(syms) >= 3
    return CaseResult(failures, nontrivial, labels, sample={"name": name, "cfg": case["cfg"], "expect": want_comp})


def post_phase(tier, seed):
    """Thorough tier: coverage-guided supplement (atheris) over the same oracle, empty starting corpus."""
    if tier != "thorough":
        return {}
    from ..fuzz import supplement

    return supplement(PROPERTY, seed, 300000)
