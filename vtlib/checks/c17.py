"""C17 — code generation is a deterministic function of the network description."""
from __future__ import annotations
import hashlib
import os
import shutil
import tempfile
from pathlib import Path

from hypothesis import strategies as st

from ..runner import CaseResult, case_hash
from ..gen import formats as F
from ..gen import lines as L

PROPERTY = "C17"
LEVEL = "exploration"
TECHNIQUE = "property-based testing (Hypothesis) over operation sequences run in fresh interpreters: every rendering of a description inside a scenario (after builds / edits / renderings of other descriptions) is compared by sha256 with the same description rendered alone in a fresh process, and alone-renderings are compared across PYTHONHASHSEED values"
RULE = (
    "A pool of network descriptions (KIDA default lists; UCLCHEM upper-case lists + replacement table + '#' prefix "
    "+ user binding energies / yields + rr07x grains; Leeds 'G' prefix + hh93 grains + own lists; KROME with "
    "@var/@common/@format directives; UMIST with rate modifiers; native format; with generated reaction subsets, "
    "binding energies, allowed-species lists, back-ends) and scenarios = sequences of 3-8 operations over 2-3 "
    "descriptions: build B through the API, build-and-edit B, render B through `naunet render` (in-process "
    "command) or through Network(...)+TemplateLoader, render A, render A again. One fresh interpreter per "
    "scenario. Oracle: sha256 of the include/ src/ python/ trees of every render(D) in a scenario equals the "
    "digest of D rendered alone by the same route in a fresh interpreter with PYTHONHASHSEED=0, and the alone "
    "rendering under hash seeds {1, 2, 12345, case-derived} gives the same digest. Non-trivial = a scenario that "
    "renders a description after an operation on a different description whose element lists / replacement / "
    "binding energies differ."
)
ASSUMPTIONS = [
    "a 'description' is a project directory (network file + naunet_config.toml) or the equivalent Network(...) arguments; the API route passes the element lists explicitly, as `naunet render` does",
    "the CMake project version (yy.mm) is the only embedded date and is constant within a run",
]

GAS = ["H", "H2", "H+", "C", "C+", "CH", "O", "OH", "CO", "H2O", "He", "He+", "HCO+", "H3+"]


def budget(tier):
    if tier == "quick":
        return dict(examples=7, shards=16, shrink_calls=25)
    return dict(examples=40, shards=16, shrink_calls=300)


# ------------------------------------------------------------------------------------ descriptions
def _lr(fmt, r, p, code, idx, a=1.0e-10, b=0.0, c=0.0, tmin=0, tmax=0):
    return {"fmt": fmt, "r": r, "p": p, "markers_r": [], "a": a, "b": b, "c": c, "tmin": tmin, "tmax": tmax, "idx": idx, "code": code}


@st.composite
def _desc(draw, kind=None):
    kind = kind or draw(st.sampled_from(["kida", "uclchem-upper", "leeds-grain", "krome", "umist-mod", "naunet"]))
    d = {"kind": kind, "elements": [], "pseudo": [], "replacement": {}, "surface": "#", "binding": {}, "yields": {}, "allowed": [], "required": [], "grain_model": "",
         "rate_mod": {}, "ode_mod": {}, "backend": draw(st.sampled_from([["cvode", "dense", "cpu"], ["cvode", "sparse", "cpu"], ["odeint", "rosenbrock4", "cpu"]]))}
    pairs = [(["H", "H"], ["H2"]), (["C", "CH"], ["C2", "H"]), (["H+", "e-"], ["H"]), (["C+", "H2"], ["CH", "H+"]), (["O", "H2"], ["OH", "H"]), (["CO", "He+"], ["C+", "O", "He"]), (["OH", "H2"], ["H2O", "H"]), (["H3+", "CO"], ["HCO+", "H2"])]
    sel = draw(st.lists(st.sampled_from(pairs), min_size=2, max_size=6, unique_by=lambda t: tuple(t[0] + t[1])))
    if kind in ("kida", "umist-mod", "naunet"):
        fmt = {"kida": "kida", "umist-mod": "umist", "naunet": "naunet"}[kind]
        code = {"kida": 3, "umist": "NN", "naunet": 100}[fmt]
        lrs = [_lr(fmt, list(r), list(p), code, i + 1, a=draw(st.sampled_from([1e-10, 2.4e-9])), b=draw(st.sampled_from([0.0, 0.5])), c=draw(st.sampled_from([0.0, 10.0]))) for i, (r, p) in enumerate(sel)]
        if kind == "naunet" and draw(st.integers(0, 1)) == 0:
            # ice species on several grain-size groups (the group number follows the surface prefix), hh93 grains
            groups = draw(st.sampled_from([[0], [1], [1, 9], [0, 8], [2, 10], [1, 2, 3], [3, 11, 19], [0, 1, 8, 9], [4, 12]]))
            ices = draw(st.lists(st.sampled_from(["CO", "H2O", "H2"]), min_size=1, max_size=2, unique=True))
            n = len(lrs)
            for g in groups:
                for x in ices:
                    ice = f"#{g}{x}" if g else f"#{x}"
                    lrs.append(_lr("naunet", [x], [ice], 200, n + 1, a=1.0))
                    lrs.append(_lr("naunet", [ice], [x], 201, n + 2, a=1.0))
                    n += 2
            d["grain_model"] = "hh93"
            d["kind"] = "naunet-grain-groups"
        d["fmt"] = fmt
        d["text"] = "\n".join(L.encode(lr, {"padded": True}) for lr in lrs) + "\n"
        if draw(st.booleans()):
            # extra species that take part in no reaction (config: species.required / --extra-species)
            d["required"] = draw(st.lists(st.sampled_from(["Ar", "Mg", "Si", "S", "N", "N2", "Fe", "Na"]), min_size=1, max_size=4, unique=True))
        if kind == "umist-mod":
            d["rate_mod"] = {"1": draw(st.sampled_from(["0.0", "1.0e-9 * nH"]))}
        if draw(st.integers(0, 2)) == 0:
            # a user-supplied rate for the *last* reaction of the file
            d["rate_mod"] = dict(d["rate_mod"], **{str(lrs[-1]["idx"]): draw(st.sampled_from(["0.0", "2.5e-10"]))})
        if kind == "kida" and draw(st.booleans()):
            d["elements"] = ["e", "H", "He", "C", "O"] + sorted({"Ne", "Ar", "Mg", "Si", "S", "N", "Fe", "Na"} & {x.rstrip("2") for x in d["required"]})
            d["pseudo"] = ["CR", "CRP", "Photon"]
    elif kind == "uclchem-upper":
        up = lambda s: s.replace("He", "HE").replace("e-", "E-")
        lrs = [_lr("uclchem", [up(x) for x in r], [up(x) for x in p], "", -1) for r, p in sel]
        ices = draw(st.lists(st.sampled_from(["CO", "H2O", "H2", "OH"]), min_size=1, max_size=3, unique=True))
        for x in ices:
            lrs.append(_lr("uclchem", [x], ["#" + x], "FREEZE", -1, a=1.0))
            lrs.append(_lr("uclchem", ["#" + x], [x], "DESCR", -1, a=1.0, c=960.0))
            lrs.append(_lr("uclchem", ["#" + x], [x], "THERM", -1, a=1.0, c=960.0))
        d["fmt"] = "uclchem"
        d["text"] = "\n".join(["H,H,NAN,H2,NAN,NAN,NAN,1e-17,0.0,0.0,0.0,0.0"] + [L.encode(lr) for lr in lrs]) + "\n"
        d["elements"] = ["E", "H", "D", "HE", "C", "N", "O", "MG", "SI", "S", "CL"]
        d["pseudo"] = ["CR", "CRP", "PHOTON", "CRPHOT"]
        d["replacement"] = {"E": "e", "HE": "He", "MG": "Mg", "SI": "Si", "CL": "Cl"}
        d["grain_model"] = "rr07x"
        if draw(st.booleans()):
            # the format has no reaction numbers: the key is the position in the file
            d["rate_mod"] = {str(draw(st.integers(0, 2))): draw(st.sampled_from(["0.0", "2.5e-10"]))}
        for x in ices:
            if draw(st.booleans()):
                d["binding"]["#" + x] = draw(st.sampled_from([960.0, 1234.5, 5773.0]))
            if draw(st.booleans()):
                d["yields"]["#" + x] = draw(st.sampled_from([1.0e-3, 2.7e-3]))
    elif kind == "leeds-grain":
        lrs = [_lr("leeds", list(r), list(p), 1, i + 1) for i, (r, p) in enumerate(sel)]
        ices = draw(st.lists(st.sampled_from(["CO", "H2O", "H2", "H"]), min_size=1, max_size=3, unique=True))
        n = len(lrs)
        for x in ices:
            lrs.append(_lr("leeds", [x], ["G" + x], 7, n + 1, a=1.0))
            lrs.append(_lr("leeds", ["G" + x], [x], 8, n + 2, a=1.0))
            n += 2
        d["fmt"] = "leeds"
        d["text"] = "\n".join(L.encode(lr) for lr in lrs) + "\n"
        d["elements"] = ["e", "H", "He", "C", "N", "O", "Si", "S"]
        d["pseudo"] = ["CRP", "XRAY", "PHOTON", "CRPHOT"]
        d["surface"] = "G"
        d["grain_model"] = draw(st.sampled_from(["hh93", "hh93i"]))
        for x in ices:
            if draw(st.booleans()):
                d["binding"]["G" + x] = draw(st.sampled_from([600.0, 1150.0, 4800.0]))
    else:  # krome
        d["fmt"] = "krome"
        com = draw(st.sampled_from([["user_crflux", "user_Av"], ["user_Av", "user_G0", "user_crflux"], ["vt_one"]]))
        if draw(st.booleans()):
            d["text"] = "\n".join([
                "#generated",
                "@common:" + ",".join(com),
                "@var:vt_te = Tgas*8.617343e-5",
                "@format:idx,R,R,R,P,P,P,Tmin,Tmax,rate",
                "1,H,E,,H+,E,E,NONE,NONE,exp(-32.7d0+13.5d0*lnTe)*vt_te",
                f"2,H+,E,,H,,,NONE,.LE.5.5e3,3.92d-13*invTe**0.6353d0*{com[0]}",
                "@format:idx,R,R,P,P,Tmin,Tmax,rate",
                "3,H,H,H2,,>10,NONE,1.0d-17*sqrTgas*T32**(0.5)",
            ]) + "\n"
        else:
            # no @format line: KROME's standard column layout idx,R,R,R,P,P,P,P,Tmin,Tmax,rate
            d["kind"] = "krome-standard-layout"
            d["text"] = "\n".join([
                "@common:" + ",".join(com),
                "@var:vt_te = Tgas*8.617343e-5",
                "1,H,E,,H+,E,E,,NONE,NONE,exp(-32.7d0+13.5d0*lnTe)*vt_te",
                f"2,H+,E,,H,,,,NONE,.LE.5.5e3,3.92d-13*invTe**0.6353d0*{com[0]}",
                "3,H,H,H,H2,H,,,>10,NONE,1.0d-31*sqrTgas*T32**(0.5)",
            ]) + "\n"
    if draw(st.integers(0, 3)) == 0 and kind in ("kida", "umist-mod", "naunet"):
        # (the API requires the extra species to be allowed as well)
        d["allowed"] = sorted({s for r, p in sel[:-1] for s in r + p} | set(d["required"]))
    return d


@st.composite
def _case(draw):
    nd = draw(st.integers(2, 3))
    kinds = draw(st.lists(st.sampled_from(["kida", "uclchem-upper", "leeds-grain", "krome", "krome", "umist-mod", "naunet", "uclchem-upper", "leeds-grain"]), min_size=nd, max_size=nd))
    descs = [draw(_desc(k)) for k in kinds]
    ops = []
    has_krome = any(d["fmt"] == "krome" for d in descs)
    for _ in range(draw(st.integers(3, 8))):
        if has_krome and draw(st.integers(0, 4)) == 0:
            ops.append(["faulty_krome", 0])
            continue
        ops.append([draw(st.sampled_from(["build", "build_edit", "build_keep", "render_kept", "render_cli", "render_cli", "render_api", "render_api", "render_grown", "render_plus_after_export", "render_bare", "faulty_krome", "render_objects_after_superset", "render_loader_kept"])), draw(st.integers(0, nd - 1))])
    if not any(o[0].startswith("render") for o in ops):
        ops.append(["render_cli", 0])
    # scenarios that only matter for particular descriptions are steered to them (a description with a modifier is grown; a
    # KROME description in the standard layout is read after a refused file)
    for i, d in enumerate(descs):
        if d["rate_mod"] and d["fmt"] != "krome" and draw(st.booleans()) and ["render_grown", i] not in ops:
            ops.append(["render_grown", i])
        if d["kind"] == "krome-standard-layout" and draw(st.booleans()):
            ops += [["faulty_krome", 0], [draw(st.sampled_from(["render_cli", "render_api"])), i]]
    return {"descs": descs, "ops": ops}


def strategy(tier):
    return _case()


def fixed_cases(tier):
    return []


# ------------------------------------------------------------------------------------ fresh-process side
def _write_project(desc, root):
    import tomlkit
    from naunet.configuration import NAUNET_CONFIG_DEFAULT

    root = Path(root)
    root.mkdir(parents=True, exist_ok=True)
    fname = f"network.{desc['fmt']}"
    (root / fname).write_text(desc["text"])
    c = tomlkit.loads(NAUNET_CONFIG_DEFAULT)
    c["general"]["name"] = "vtproj"
    ch = c["chemistry"]
    ch["symbol"] = {"grain": "GRAIN", "surface": desc["surface"], "bulk": "@"}
    ch["element"]["elements"] = list(desc["elements"])
    ch["element"]["pseudo_elements"] = list(desc["pseudo"])
    ch["element"]["replacement"] = dict(desc["replacement"])
    ch["species"]["allowed"] = list(desc["allowed"])
    ch["species"]["required"] = list(desc["required"])
    ch["species"]["binding_energy"] = dict(desc["binding"])
    ch["species"]["photon_yield"] = dict(desc["yields"])
    ch["grain"]["model"] = desc["grain_model"]
    ch["network"]["files"] = [fname]
    ch["network"]["formats"] = [desc["fmt"]]
    ch["rate_modifier"] = dict(desc["rate_mod"])
    ch["ode_modifier"] = dict(desc["ode_mod"])
    s, m, dv = desc["backend"]
    c["ODEsolver"] = {"solver": s, "device": dv, "method": m}
    (root / "naunet_config.toml").write_text(tomlkit.dumps(c))
    return fname


def _digest(root):
    h = hashlib.sha256()
    root = Path(root)
    n = 0
    for sub in ("include", "src", "python"):
        for p in sorted((root / sub).rglob("*")) if (root / sub).exists() else []:
            if p.is_file():
                h.update(str(p.relative_to(root)).encode())
                h.update(b"\0")
                h.update(p.read_bytes())
                n += 1
    return h.hexdigest()[:20] if n else "no-files"


def _network_kwargs(desc, fname):
    return dict(
        filelist=[fname], fileformats=[desc["fmt"]], elements=list(desc["elements"]), pseudo_elements=list(desc["pseudo"]),
        allowed_species=list(desc["allowed"]), required_species=list(desc["required"]),
        species_kwargs={"grain_symbol": "GRAIN", "surface_prefix": desc["surface"], "bulk_prefix": "@"}, grain_model=desc["grain_model"],
        rate_modifier={int(k): v for k, v in desc["rate_mod"].items()}, ode_modifier=dict(desc["ode_mod"]),
    )


_KEPT = {}


def _do(op, desc, workdir, k, slot=0):
    """One operation in the current interpreter; returns digest for render ops."""
    from cleo.application import Application
    from cleo.testers.command_tester import CommandTester
    from naunet.console.commands import RenderCommand
    from naunet.network import Network
    from naunet.templateloader import TemplateLoader
    from naunet.species import Species
    from naunet.chemistrydata import update_binding_energy, update_photon_yield
    from naunet.reactions.reaction import Reaction
    from naunet.reactiontype import ReactionType

    root = Path(workdir) / f"op{k}"
    fname = _write_project(desc, root)
    cwd = os.getcwd()
    os.chdir(root)
    try:
        if op == "render_cli":
            app = Application()
            app.add(RenderCommand())
            t = CommandTester(app.find("render"))
            rc = t.execute("--force")
            return _digest(root) if rc == 0 else f"status{rc}"
        if op == "faulty_krome":
            # somebody tries to read a broken KROME file (directives, then a species outside the element list) and
            # catches the error; the next networks must not be affected
            bad = root / "bad.krome"
            bad.write_text("@common:user_leak1,user_leak2\n@var:vt_leak = 2.0*Tgas\n@format:idx,R,R,P,P,rate\n1,H,H,H2,,1.0d-10*user_leak1\n2,Xx9,H,H2,,1.0d-10\n")
            try:
                Network(filelist=[str(bad)], fileformats=["krome"], elements=["e", "E", "H"], pseudo_elements=[])
            except Exception:
                pass
            return None
        if op == "render_kept" and slot in _KEPT:
            # render a network that was built earlier (other networks may have been built in between)
            net = _KEPT[slot]
            s, m, dv = desc["backend"]
            # the file it was read from lives in the old op directory; rendering needs no file
            TemplateLoader(s, m, dv).render("vtproj", net, path=root)
            return _digest(root)
        if op == "render_bare":
            # a plain script: Network(...) with the description's own arguments and nothing else - no manual re-installation
            # of the class-level symbol tables between two networks. Only for descriptions that use the default lists and no
            # tables of their own (those that do must install them, which is what the other API routes model).
            if not (desc["elements"] or desc["pseudo"] or desc["replacement"] or desc["binding"] or desc["yields"]) and desc["surface"] == "#":
                kw = dict(filelist=[fname], fileformats=[desc["fmt"]], allowed_species=list(desc["allowed"]), required_species=list(desc["required"]),
                          grain_model=desc["grain_model"], rate_modifier={int(k_): v for k_, v in desc["rate_mod"].items()}, ode_modifier=dict(desc["ode_mod"]))
                net = Network(**kw)
                s, m, dv = desc["backend"]
                TemplateLoader(s, m, dv).render("vtproj", net, path=root)
                return _digest(root)
            op = "render_api"
        # API routes: what `naunet render` documents, through public calls
        Species._replacement = dict(desc["replacement"])
        Species.set_known_elements(list(desc["elements"]))
        Species.set_known_pseudoelements(list(desc["pseudo"]))
        sk = {"grain_symbol": "GRAIN", "surface_prefix": desc["surface"], "bulk_prefix": "@"}
        from naunet import chemistrydata

        chemistrydata.user_binding_energy.clear()
        chemistrydata.user_photon_yield.clear()
        update_binding_energy({Species(kk, **sk).name: v for kk, v in desc["binding"].items()})
        update_photon_yield({Species(kk, **sk).name: v for kk, v in desc["yields"].items()})
        if op == "render_grown":
            # the network is built from all but the last data line, rendered, grown with the last line through
            # add_reaction_from_file, and rendered again: same description, so the same sources as built in one go
            data = [ln for ln in desc["text"].split("\n") if ln.strip()]  # (KROME, the only format with comment lines, is excluded below)
            if desc["fmt"] != "krome" and len(data) >= 2:
                head, tail = desc["text"].rsplit(data[-1], 1)
                (root / "part1").write_text(head)
                (root / "part2").write_text(data[-1] + "\n")
                kw = _network_kwargs(desc, "part1")
                net = Network(**kw)
                s, m, dv = desc["backend"]
                first = Path(workdir) / f"op{k}_first"
                first.mkdir()
                TemplateLoader(s, m, dv).render("vtproj", net, path=first)
                net.add_reaction_from_file(str(root / "part2"), desc["fmt"])
                (root / "part1").unlink()
                (root / "part2").unlink()
                TemplateLoader(s, m, dv).render("vtproj", net, path=root)
                return _digest(root)
            op = "render_api"
        if op in ("render_plus", "render_plus_after_export"):
            # the description plus one reaction added through the API (no file index); exporting the project in between must not
            # change what the same Network object renders afterwards
            net = Network(**_network_kwargs(desc, fname))
            net.add_reaction(Reaction(["H", "H"], ["H2"], alpha=1.0e-17, reaction_type=ReactionType.GAS_TWOBODY))
            s, m, dv = desc["backend"]
            if op == "render_plus_after_export":
                net.export("vtexp", solver=s, method=m, device=dv, prefix=str(Path(workdir)), overwrite=True)
                shutil.rmtree(Path(workdir) / "vtexp", ignore_errors=True)
            TemplateLoader(s, m, dv).render("vtproj", net, path=root)
            return _digest(root)
        if op == "render_loader_kept":
            # a loader object that is kept while another back-end is rendered with a second loader (cpu, gpu, cpu again): what a loader
            # renders depends on its own construction arguments only
            net = Network(**_network_kwargs(desc, fname))
            s, m, dv = desc["backend"]
            tl = TemplateLoader(s, m, dv)
            ob = ("cvode", "cusparse", "gpu") if m != "cusparse" else ("odeint", "rosenbrock4", "cpu")
            other = Path(workdir) / f"op{k}_otherbackend"
            other.mkdir()
            TemplateLoader(*ob).render("vtproj", net, path=other)
            tl.render("vtproj", net, path=root)
            return _digest(root)
        if op in ("render_objects", "render_objects_after_superset"):
            # the reaction objects read from the file are handed to a second Network (a sub-network, a copy with other options, ...);
            # whether a larger network holding the same objects was rendered before must not change what this one renders
            kw = _network_kwargs(desc, fname)
            objs = list(Network(**kw).reaction_list)
            kw2 = {k_: v for k_, v in kw.items() if k_ not in ("filelist", "fileformats")}
            s, m, dv = desc["backend"]
            if op == "render_objects_after_superset":
                sup = Network(reactions=[Reaction(["H", "H"], ["H2"], alpha=1.0e-17, reaction_type=ReactionType.GAS_TWOBODY)] + objs,
                              **{k_: v for k_, v in kw2.items() if k_ not in ("rate_modifier", "allowed_species")})
                other = Path(workdir) / f"op{k}_superset"
                other.mkdir()
                TemplateLoader(s, m, dv).render("vtproj", sup, path=other)
            net = Network(reactions=objs, **kw2)
            TemplateLoader(s, m, dv).render("vtproj", net, path=root)
            return _digest(root)
        net = Network(**_network_kwargs(desc, fname))
        if op == "build":
            _ = net.species
            return None
        if op == "build_keep":
            _KEPT[slot] = net
            return None
        if op == "build_edit":
            net.add_reaction(Reaction(["H", "H"], ["H2"], alpha=1.0, reaction_type=ReactionType.GAS_TWOBODY))
            if net.reaction_list:
                net.remove_reaction(0)
            _ = net.find_duplicate_reaction("short")
            _ = [s.alias for s in net.species]
            return None
        s, m, dv = desc["backend"]
        TemplateLoader(s, m, dv).render("vtproj", net, path=root)
        first = _digest(root)
        # render the same Network object once more (export() followed by to_code(), two back-ends in a row, ...)
        again = Path(workdir) / f"op{k}_again"
        again.mkdir()
        TemplateLoader(s, m, dv).render("vtproj", net, path=again)
        second = _digest(again)
        return first if first == second else f"second-render-of-same-object-differs:{first}:{second}"
    finally:
        os.chdir(cwd)


def run_scenario(payload):
    wd = tempfile.mkdtemp(prefix="vt-")
    out = []
    try:
        for k, (op, i) in enumerate(payload["ops"]):
            try:
                out.append(_do(op, payload["descs"][i], wd, k, slot=i))
            except Exception as e:
                out.append(f"raised:{type(e).__name__}:{str(e)[:80]}")
    finally:
        shutil.rmtree(wd, ignore_errors=True)
    return out


def render_alone(payload):
    return run_scenario({"descs": [payload["desc"]], "ops": [[payload["route"], 0]]})[0]


# ------------------------------------------------------------------------------------ check
_ALONE = {}


def alone(desc, route, hashseed):
    from ..proc.call import call

    key = (case_hash(desc), route, str(hashseed))
    if key not in _ALONE:
        _ALONE[key] = call("vtlib.checks.c17", "render_alone", {"desc": desc, "route": route}, hashseed=hashseed)
    return _ALONE[key]


def _ref_route(op):
    """The route that renders the same description alone (first thing in a fresh process)."""
    return {"render_kept": "render_api", "render_grown": "render_api", "render_plus_after_export": "render_plus", "render_objects_after_superset": "render_objects", "render_loader_kept": "render_api"}.get(op, op)


def differs(a, b):
    keys = ("elements", "pseudo", "replacement", "surface", "binding", "yields")
    return any(a[k] != b[k] for k in keys)


def check_case(case, tier):
    from ..proc.call import call

    failures = []
    descs, ops = case["descs"], case["ops"]
    labels = sorted({f"desc-{d['kind']}" for d in descs} | {"required-unreacting-species" for d in descs if len(d["required"]) >= 2})
    got = call("vtlib.checks.c17", "run_scenario", case, hashseed=0)
    nontrivial = False
    seen_ops = []
    for k, ((op, i), dg) in enumerate(zip(ops, got)):
        if op.startswith("render"):
            ref = alone(descs[i], _ref_route(op), 0)
            # (the refused KROME file of faulty_krome is read with element lists of its own: a foreign description whatever its slot)
            prev_other = [(o, j) for o, j in seen_ops if o == "faulty_krome" or (j != i and differs(descs[i], descs[j]))]
            if prev_other:
                nontrivial = True
            if str(ref).startswith(("raised", "status")):
                labels.append("description-refused-alone")
            elif str(dg).startswith("second-render-of-same-object-differs"):
                failures.append((f"determinism/second-render-of-same-object/{descs[i]['kind']}", f"op#{k} {op}({descs[i]['kind']}): rendering the same Network object twice in a row gives different sources ({dg})"))
            elif dg != ref:
                # classify by what happened before
                kinds = sorted({"refused-krome-file" if o_ == "faulty_krome" else descs[j]["kind"] for o_, j in prev_other})
                why = "after-other-description" if prev_other else "repeat-or-first"
                first_prev = prev_other[-1][0] if prev_other else "none"
                if op == "render_kept":
                    kb = max((n for n, (o, j) in enumerate(seen_ops) if o == "build_keep" and j == i), default=None)
                    between = [(o, j) for o, j in seen_ops[kb + 1:] if j != i and differs(descs[i], descs[j])] if kb is not None else []
                    if between:
                        failures.append(("determinism/render-kept-after-foreign-state-change",
                                         f"op#{k}: network of {descs[i]['kind']} built at op#{kb}, then {between} installed other element lists / replacement / binding tables, then rendered: digest {dg} vs {ref} alone"))
                        seen_ops.append((op, i))
                        continue
                if op == "render_objects_after_superset" and alone(descs[i], "render_objects_after_superset", 0) == dg:
                    # (the same operation alone in a fresh process already differs: the earlier operations of the scenario are not needed)
                    failures.append(("determinism/reaction-objects-shared-with-a-rendered-network",
                                     f"op#{k}: Network(reactions=objs) of {descs[i]['kind']} rendered after a larger network holding the same Reaction objects was rendered: "
                                     f"digest {dg} vs {ref} without that earlier rendering (rate modifiers {descs[i]['rate_mod']})"))
                    seen_ops.append((op, i))
                    continue
                if op == "render_bare" and prev_other:
                    failures.append(("determinism/bare-network-inherits-foreign-symbol-tables",
                                     f"op#{k}: Network(...) of {descs[i]['kind']} (default symbol lists, no tables of its own) built after {sorted({'refused-krome-file' if o_ == 'faulty_krome' else descs[j]['kind'] for o_, j in prev_other})} had installed their element lists / replacement table / binding energies: {'raises ' + str(dg)[7:] if str(dg).startswith('raised') else 'digest ' + str(dg)} vs {ref} when built first in a fresh process"))
                    seen_ops.append((op, i))
                    continue
                failures.append((f"determinism/{op}/{why}/{descs[i]['kind']}<-{'+'.join(kinds) or 'self'}:{first_prev if first_prev.startswith('render') else 'build'}",
                                 f"op#{k} {op}({descs[i]['kind']}) gives digest {dg} but the same description rendered alone gives {ref}; earlier ops: {seen_ops}"))
        seen_ops.append((op, i))
    # hash-seed independence of the alone rendering
    for i, d in enumerate(descs):
        for route in sorted({_ref_route(op) for op, j in ops if j == i and op.startswith("render")}):
            base = alone(d, route, 0)
            if str(base).startswith(("raised", "status")):
                continue
            for hs in (1, 2, 12345, 1 + int(case_hash(d), 16) % 100000):
                other = alone(d, route, hs)
                if other != base:
                    failures.append((f"determinism/hash-seed/{d['kind']}", f"{route}({d['kind']}) digest {other} under PYTHONHASHSEED={hs} vs {base} under 0"))
                    break
    sample = {"descs": [d["kind"] for d in descs], "ops": ops}
    return CaseResult(failures, nontrivial, labels, sample=sample, extra={"renderings_compared": sum(1 for o, _ in ops if o.startswith("render"))})
