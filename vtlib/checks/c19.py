"""C19 — Solve integrates exactly the requested interval or reports failure (fault enumeration on a scripted integrator)."""
from __future__ import annotations
import math
import re

from hypothesis import strategies as st

from ..runner import CaseResult
from .. import netcase as N
from ..cxx import build
from . import c01

PROPERTY = "C19"
LEVEL = "fault_enumeration"
TECHNIQUE = "fault injection: generated and enumerated scripts of integrator outcomes fed to a mock CVODE / mock odeint linked with the *unchanged* rendered naunet.cpp (ASan+UBSan); oracle = invariants over the call trace and the final state (the mock's solution y=y0+t measures integrated time); a third of the CPU cases calls Solve through the rendered Python entry point PyWrapSolve (compiled against a stand-in for pybind11), where an exception is the report of failure"
RULE = (
    "The rendered src/naunet.cpp (Solve, HandleError, CheckFlag; cvode dense and sparse) and the odeint "
    "Solve/Observer are compiled unchanged with ASan/UBSan against a scripted integrator whose exact solution is "
    "y(t) = y0 + t. Fault scripts: outcome (flag in {0,-1,-2,-3,-4,-6,-5,-7,-22,-27}, completed fraction in [0,1)) "
    "for each CVode call along the recovery ladder (1 + 10/20/30/40/50 sub-steps), outcome {0,-22} for each "
    "CVodeReInit, dt log-uniform 1e-6..1e16; enumerated: every single fault position x flag on top of an initial "
    "recoverable failure (exhaustive), plus generated multi-fault paths; odeint: scripted step counts around mxsteps. "
    "Oracle (trace invariants, not a re-implementation of the ladder): success => every component advanced by dt "
    "(rel 1e-9) and the last CVode call succeeded and no unrecoverable flag / failed ReInit occurred; failure => "
    "NAUNET_FAIL and the error record holds the initial state; a fault-free script must succeed; odeint: more than "
    "mxsteps observer calls => NAUNET_FAIL, otherwise success with ab = ab_init + dt. Non-trivial = script has >=1 "
    "failure; distinct scripts counted by content hash."
)
ASSUMPTIONS = [
    "the integrator is a mock (vtlib/cxx/shim): naunet's control flow is exercised, not CVODE's numerics",
    "setup-call failures (CVodeInit...) are not in the property's fault alphabet and are not injected",
    "the cuSPARSE back-end's Solve is executed through the host emulation of CUDA (vtlib/cxx/shim/vt_cuda.h: one cell, one stream, the same scripted CVODE mock); the pybind wrappers are out of scope",
]
RECOV = [-1, -2, -3, -4]
UNREC = [-5, -7, -22, -27]
LEVEL_STEPS = [10, 20, 30, 40, 50]


def budget(tier):
    if tier == "quick":
        return dict(examples=6, shards=16, shrink_calls=40)
    return dict(examples=80, shards=16, shrink_calls=400)


@st.composite
def _path(draw):
    """One fault script along the ladder; returns dict(dt, cv=[[flag,frac],..], ri=[..])."""
    frac = st.sampled_from([0.0, 0.25, 0.5, 0.75, 0.4, 0.999, 0.001])
    flag_r = st.sampled_from(RECOV + [-6, -6])
    cv, ri = [], []
    kind = draw(st.sampled_from(["clean", "ladder", "ladder", "ladder", "ladder"]))
    if kind == "clean":
        pass
    else:
        first = draw(st.sampled_from(RECOV * 3 + [-6, -6] + UNREC))
        cv.append([first, draw(frac)])
        if first in RECOV or first == -6:
            for lvl, nsub in enumerate(LEVEL_STEPS):
                ri.append(draw(st.sampled_from([0] * 12 + [-22])))
                outcome = draw(st.sampled_from(["pass", "fail", "fail", "fail", "unrec"]))
                if outcome == "pass":
                    break
                pos = draw(st.integers(1, nsub))
                cv += [[0, 1.0]] * (pos - 1)
                if outcome == "unrec":
                    cv.append([draw(st.sampled_from(UNREC)), draw(frac)])
                    break
                cv.append([draw(flag_r), draw(frac)])
    out = {"dt": 10.0 ** draw(st.floats(min_value=-6, max_value=16)), "cv": cv, "ri": ri}
    if draw(st.integers(0, 7)) == 0:
        out["reset"] = draw(st.sampled_from([1, 50, 500]))
    return out


@st.composite
def _case(draw, nscripts):
    backend = draw(st.sampled_from(["dense", "dense", "sparse", "sparse", "rosenbrock4", "rosenbrock4", "cusparse"]))
    net = draw(st.sampled_from([0, 1, 2, 3]))
    if backend == "rosenbrock4":
        mx = draw(st.sampled_from([1, 2, 5, 50, 500]))
        scripts = []
        for _ in range(nscripts):
            sc = {"dt": 10.0 ** draw(st.floats(min_value=-6, max_value=16)), "mxsteps": mx, "steps": max(1, draw(st.sampled_from([1, max(mx - 2, 1), mx - 1, mx, mx + 1, mx * 3, 1000])))}
            if draw(st.integers(0, 3)) == 0:
                # the step budget is changed through Reset() between Init() and Solve()
                sc["reset"] = draw(st.sampled_from([1, 2, 5, 50, 500]))
                sc["steps"] = max(1, draw(st.sampled_from([sc["reset"] - 1, sc["reset"], sc["reset"] + 1, mx, mx + 1])))
            scripts.append(sc)
    else:
        scripts = [draw(_path()) for _ in range(nscripts)]
    # a third of the CPU cases drives Solve the way Python users do: through the rendered PyWrapSolve (compiled against a
    # stand-in for pybind11), where an exception is the only report of a failure
    via_python = backend != "cusparse" and draw(st.integers(0, 2)) == 0
    return {"backend": backend, "net": net, "scripts": scripts, "userfns": draw(st.booleans()), "via_python": via_python}


def strategy(tier):
    return _case(40 if tier == "quick" else 150)


def fixed_cases(tier):
    """Exhaustive single faults: every call position of every level x every flag, after an initial recoverable failure."""
    out = []
    backends = ["dense"] if tier == "quick" else ["dense", "sparse"]
    for be in backends:
        scripts = []
        # a fault at the very first call
        for f in RECOV + [-6] + UNREC:
            for fr in (0.0, 0.5):
                scripts.append({"dt": 1000.0, "cv": [[f, fr]], "ri": []})
        # a second fault at sub-step s of level 1, then every later level fails at its first sub-step (ladder exhausted / fixed)
        for s in range(1, 11):
            for f in RECOV + [-6] + UNREC[:2]:
                scripts.append({"dt": 250.0, "cv": [[-1, 0.25]] + [[0, 1.0]] * (s - 1) + [[f, 0.5]], "ri": []})
        # deep positions: fail the first sub-step of levels 1..L-1, then fault at sub-step s of level L
        for L in range(2, 6):
            for s in sorted({1, 2, LEVEL_STEPS[L - 1] // 2, LEVEL_STEPS[L - 1] - 1, LEVEL_STEPS[L - 1]} if tier == "quick" else set(range(1, LEVEL_STEPS[L - 1] + 1))):
                for f in RECOV[:1] + [-6] + UNREC[:1] + ([] if tier == "quick" else RECOV[1:] + UNREC[1:]):
                    for prev in ([-1, -6] if tier == "quick" else [-1, -3, -6]):
                        cv = [[-2, 0.4]] + [[prev, 0.25]] * (L - 1) + [[0, 1.0]] * (s - 1) + [[f, 0.5]]
                        scripts.append({"dt": 3.0e7, "cv": cv, "ri": []})
        # everything fails: ladder exhausted
        for f in RECOV + [-6]:
            scripts.append({"dt": 1.0e10, "cv": [[f, 0.3]] * 6, "ri": []})
            scripts.append({"dt": 1.0e10, "cv": [[-1, 0.3]] * 5 + [[0, 1.0]] * 49 + [[f, 0.9]], "ri": []})
        # failing re-initialisation at each level
        for L in range(1, 6):
            scripts.append({"dt": 77.0, "cv": [[-1, 0.5]] * L, "ri": [0] * (L - 1) + [-22]})
        out.append({"backend": be, "net": 1, "scripts": scripts, "userfns": True})
        if be == "dense":
            out.append({"backend": be, "net": 3, "scripts": scripts[:60], "userfns": True})  # network with a temperature equation
    ode = [{"dt": 10.0 ** e, "mxsteps": mx, "steps": s} for e in (-3, 4) for mx in (1, 3, 500) for s in sorted({1, max(mx - 1, 1), mx, mx + 1, 5 * mx})]
    out.append({"backend": "rosenbrock4", "net": 1, "scripts": ode, "userfns": True})
    return out


NETS = None


def net_case(k):
    base = c01.fixed_cases("quick")
    return [base[0], base[2], base[3], base[4]][k]


def script_text(case, s, neq):
    ab = " ".join(repr(float((i + 1) * s["dt"] / 1024.0)) for i in range(neq))
    lines = [f"dt {float(s['dt']).hex()}", f"ab {ab}", f"userfns {1 if case.get('userfns') else 0}"]
    if "reset" in s:
        lines.append(f"reset {s['reset']}")
    if case["backend"] == "rosenbrock4":
        lines += [f"mxsteps {s['mxsteps']}", f"st {s['steps']}"]
    else:
        lines += [f"cv {f} {float(fr).hex()}" for f, fr in s["cv"]]
        lines += [f"ri {f}" for f in s["ri"]]
    lines.append("pyrun" if case.get("via_python") else "run")
    return "\n".join(lines) + "\n"


def parse_blocks(out):
    blocks = []
    cur = None
    for ln in out.splitlines():
        if ln.startswith("RESULT"):
            cur = {"trace": [], "ret": int(re.search(r"ret=(-?\d+)", ln).group(1)), "init": int(re.search(r"init=(-?\d+)", ln).group(1))}
        elif cur is None:
            continue
        elif ln.startswith("AB"):
            cur["ab"] = [float.fromhex(x) for x in ln.split()[1:]]
        elif ln.startswith("T "):
            _, what, flag, tin, tout, tret = ln.split()
            cur["trace"].append((what, int(flag), float.fromhex(tin), float.fromhex(tout), float.fromhex(tret)))
        elif ln.startswith("OBS"):
            cur["obs"] = int(ln.split("=")[1])
        elif ln.startswith("RECORD"):
            m = re.search(r"init_lines=(\d+) of (\d+)", ln)
            cur["rec"] = (int(m.group(1)), int(m.group(2)))
        elif ln.startswith("END"):
            blocks.append(cur)
            cur = None
    return blocks


def judge_cvode(s, b, neq, failures, tag, sfx=""):
    n0 = len(failures)
    _judge_cvode(s, b, neq, failures, tag)
    if sfx:
        failures[n0:] = [(k + sfx, m) for k, m in failures[n0:]]


def _judge_cvode(s, b, neq, failures, tag):
    dt = s["dt"]
    ab0 = [float((i + 1) * dt / 1024.0) for i in range(neq)]
    cv_calls = [t for t in b["trace"] if t[0] == "C"]
    ri_calls = [t for t in b["trace"] if t[0] == "R"]
    unrec = any(f < 0 and f not in RECOV and f != -6 for _, f, *_ in cv_calls)
    ri_failed = any(f < 0 for _, f, *_ in ri_calls)
    last_ok = bool(cv_calls) and cv_calls[-1][1] >= 0
    any_fault = any(f < 0 for _, f, *_ in cv_calls) or ri_failed
    desc = f"{tag} dt={dt:.6g} cv={s['cv'][:8]}{'...' if len(s['cv']) > 8 else ''} ri={s['ri']}"
    if b["ret"] == 0:
        err = max(abs(b["ab"][i] - ab0[i] - dt) for i in range(neq))
        if err > 1e-9 * dt:
            adv = b["ab"][0] - ab0[0]
            kind = "interval-short" if adv < dt else "interval-long"
            after_reset = "/after-reset" if any(f == -6 for _, f, *_ in cv_calls) else ""
            failures.append((f"solve/success-with-wrong-{kind}{after_reset}", f"{desc}: Solve returned success but advanced {adv:.9g} instead of {dt:.9g}"))
        if not last_ok:
            failures.append(("solve/success-after-final-failure", f"{desc}: Solve returned success although the last CVode call returned {cv_calls[-1][1] if cv_calls else None}"))
        if unrec:
            failures.append(("solve/success-after-unrecoverable-flag", f"{desc}: Solve returned success although an unrecoverable flag occurred"))
        if ri_failed:
            failures.append(("solve/success-after-failed-reinit", f"{desc}: Solve returned success although CVodeReInit failed"))
    else:
        if b["ret"] != 1:
            failures.append(("solve/unknown-return-value", f"{desc}: Solve returned {b['ret']}"))
        if not any_fault:
            failures.append(("solve/failure-without-fault", f"{desc}: Solve reported failure although every integrator call succeeded"))
        if b["rec"][0] != b["rec"][1]:
            failures.append(("solve/failure-without-initial-state-record", f"{desc}: NAUNET_FAIL but the error record holds {b['rec'][0]} of {b['rec'][1]} initial-state lines"))
    if len(cv_calls) > 151:
        failures.append(("solve/too-many-integrator-calls", f"{desc}: {len(cv_calls)} CVode calls"))


def judge_odeint(s, b, neq, failures, tag, sfx=""):
    dt = s["dt"]
    ab0 = [float((i + 1) * dt / 1024.0) for i in range(neq)]
    calls = s["steps"] + 1
    budget_ = s.get("reset", s["mxsteps"])
    desc = f"{tag} dt={dt:.6g} mxsteps={s['mxsteps']}{' reset=' + str(s['reset']) if 'reset' in s else ''} steps={s['steps']}"
    if calls > budget_:
        if b["ret"] != 1:
            failures.append((f"solve/odeint-budget-overrun-not-reported{sfx}", f"{desc}: {calls} observer calls exceed the budget but Solve returned {b['ret']}"))
    else:
        if b["ret"] != 0:
            failures.append((f"solve/odeint-spurious-failure{sfx}", f"{desc}: within budget but Solve returned {b['ret']}"))
        else:
            err = max(abs(b["ab"][i] - ab0[i] - dt) for i in range(neq))
            if err > 1e-9 * dt:
                failures.append((f"solve/odeint-wrong-interval{sfx}", f"{desc}: success but advanced {b['ab'][0] - ab0[0]:.9g} instead of {dt:.9g}"))


def check_case(case, tier):
    N.reset_naunet_state()
    failures = []
    be = case["backend"]
    solver = "odeint" if be == "rosenbrock4" else "cvode"
    ncase = net_case(case["net"])
    labels = [f"backend-{be}", f"net-{case['net']}"]
    nfault = 0
    hashes = set()
    with N.Scratch() as d, N.ThermalPatch(ncase):
        net = N.build_network(ncase)
        projs = N.render(net, d, backends=[(solver, be, "gpu" if be == "cusparse" else "cpu")], templates="all")
        proj = projs[be]
        if be == "cusparse":
            # the rendered cuSPARSE naunet.cpp + kernels against the host emulation of CUDA (one cell, one stream)
            from ..cxx import cuda

            exe = cuda.build_cuda_solve_driver(proj)
        else:
            exe = build.build_solve_driver(proj, pymodule=bool(case.get("via_python")))
        if case.get("via_python"):
            labels.append("through-the-python-wrapper")
        neq = proj.neq
        text = "".join(script_text(case, s, neq) for s in case["scripts"])
        rc, out, err = build.run_driver(exe, text, proj.path)
        if rc != 0 or "ERROR: AddressSanitizer" in err or "runtime error:" in err or "VT_BOUNDS" in err:
            kind = "asan" if "AddressSanitizer" in err else "ubsan" if "runtime error" in err else "bounds" if "VT_BOUNDS" in err else f"exit{rc}"
            failures.append((f"solve/sanitizer/{kind}", f"{be}: driver died ({kind}): {err[-600:]}"))
        blocks = parse_blocks(out)
        for i, (s, b) in enumerate(zip(case["scripts"], blocks)):
            if solver == "cvode":
                judge_cvode(s, b, neq, failures, f"{be} script#{i}", sfx="/cusparse" if be == "cusparse" else "/python-wrapper" if case.get("via_python") else "")
                if any(f < 0 for f, _ in s["cv"]):
                    nfault += 1
            else:
                judge_odeint(s, b, neq, failures, f"{be} script#{i}", sfx="/python-wrapper" if case.get("via_python") else "")
                if s["steps"] + 1 > s.get("reset", s["mxsteps"]):
                    nfault += 1
            if len(failures) > 6:
                break
        if len(blocks) != len(case["scripts"]) and not failures:
            raise RuntimeError(f"driver produced {len(blocks)} result blocks for {len(case['scripts'])} scripts: {err[-500:]}")
    sample = {"backend": be, "neq": neq, "first_scripts": case["scripts"][:2], "n_scripts": len(case["scripts"])}
    return CaseResult(failures, nfault > 0, labels, sample=sample, extra={"fault_scripts_run": nfault, "scripts_run": len(case["scripts"])})
