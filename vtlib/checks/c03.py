"""C03 — sparse (CSR), dense and Odeint Jacobian layouts agree, are well-formed and in bounds."""
from __future__ import annotations

from hypothesis import strategies as st

from ..gen import model as M
from ..runner import CaseResult
from .. import netcase as N
from .. import cudacase as CU
from ..ctext.extract import LayoutViolation, BACKENDS
from ..ctext.cfile import walk_assignments
from ..ctext.poly import const_int
from ..ctext.lexer import CInvalidC, CParseError
from . import c01, c02

PROPERTY = "C03"
LEVEL = "exploration"
TECHNIQUE = "property-based testing (Hypothesis): CSR validity predicate + differential between the four back-ends' Jacobian text + pattern file + subscript bounds; a fraction of cases compiled with ASan/UBSan against exactly-sized buffers and compared with the text reading; a fraction of the cases executes the cuSPARSE kernels on a batch of cells (host emulation of the CUDA launch) and compares every cell with the dense back-end"
RULE = (
    "C01/C02 networks (incl. the empty network, isolated required species, with/without the thermal equation, with "
    "modifiers) rendered for dense, sparse, cusparse and rosenbrock4, with the Jacobian-pattern file. Validity "
    "predicate: rowptrs[0]==0, non-decreasing, rowptrs[NEQ]==NNZ==len(colvals)==len(data), 0<=col<NEQ strictly "
    "increasing per row; differential: the set of (row,col) and the polynomial at each coordinate are identical in "
    "all four back-ends; every subscript on y, ydot, k, kh, kc, data, rowptrs, colvals, IJth, j(,) lies inside the "
    "size the rendered macros declare; jac_pattern.dat is an NEQxNEQ 0/1 matrix whose ones are exactly the stored "
    "coordinates. Non-trivial = NNZ>=1 and (an empty row or a row with >=2 entries)."
)
ASSUMPTIONS = [
    "cuSPARSE back-end: kernel text for every case; for a fraction of the cases the rendered .cu files are compiled as C++ against a host emulation of the CUDA launch (vtlib/cxx/shim/vt_cuda.h, launch syntax rewritten mechanically) and run on 2-5 cells",
    "thorough tier repeats the layout under ASan/UBSan with exactly-sized buffers through the compile-and-run harness (vtlib.cxx) when available",
]


def budget(tier):
    if tier == "quick":
        return dict(examples=25, shards=16, shrink_calls=30)
    return dict(examples=120, shards=16, shrink_calls=300)


@st.composite
def _case(draw, big=False):
    case = draw(M.network(max_species=20 if big else 9, max_reactions=40 if big else 10, thermal=True, modifiers=draw(st.booleans())))
    case["route"] = "api"
    # a fraction of the cases is also compiled (ASan/UBSan, exactly-sized buffers) and compared with my reading of the text
    case["compile"] = draw(st.integers(0, 5 if not big else 2)) == 0
    case["yexp"] = [draw(st.integers(-12, 0)) for _ in range(6)]
    case["path_as_str"] = draw(st.booleans())  # TemplateLoader.render(path: Path | str)
    # the project directory may hold an earlier rendering of the network as it was before its last reaction was added
    # (`naunet render -f --with-pattern` again after editing): every file, the pattern file included, describes the new sources
    case["rerender"] = len(case["reactions"]) >= 2 and draw(st.integers(0, 3)) == 0
    # compiled cases also execute the cuSPARSE kernels (host emulation, ASan/UBSan, exactly-sized device buffers) on a batch
    case["cuda"] = draw(CU.batch()) if case["compile"] else None
    return case


def strategy(tier):
    return _case(big=(tier == "thorough"))


def fixed_cases(tier):
    return c02.fixed_cases(tier)


def check_rate_subscripts(proj, failures, tag):
    for which, arr, size in (("EvalRates", "k", proj.nreac), ("EvalHeatingRates", "kh", proj.ints.get("NHEATPROCS", 0)), ("EvalCoolingRates", "kc", proj.ints.get("NCOOLPROCS", 0))):
        try:
            _, stmts = proj.rates_fn(which)
        except CParseError:
            if size == 0:
                continue
            raise
        seen = set()
        for _, lhs, op, rhs in walk_assignments(stmts):
            if lhs[0] == "index" and lhs[1] == ("id", arr):
                n = const_int(lhs[2], proj.ints)
                if not (0 <= n < size):
                    failures.append(("bounds/rate-array", f"{tag}: {which} writes {arr}[{n}] but the array has {size} entries"))
                seen.add(n)


PV = {"nH": 1.3e4, "Tgas": 57.0, "zeta": 1.3e-17, "Av": 1.5, "omega": 0.5, "mu": 1.4, "gamma": 1.6}


def compiled_cross_check(case, projs, lays, failures):
    """Engine A vs engine B: compiled Fex/Jac (sanitizers on) against the polynomials read from the text."""
    from ..cxx import build
    from .. import ratecase as R

    for method in ("dense", "sparse", "rosenbrock4"):
        proj = projs[method]
        try:
            exe = build.build_ode_driver(proj, PV)
        except build.BuildError as e:
            failures.append((f"compiled/does-not-compile/{build.classify_diag(next((l for l in str(e).splitlines() if 'error' in l), 'error: ?'))}", f"{method}: {str(e)[-400:]}"))
            continue
        neq = proj.neq
        ys = []
        for k in range(2):
            ys.append([10.0 ** case["yexp"][(i + k) % len(case["yexp"])] * (1.0 + 0.1 * i) for i in range(neq)])
            if proj.ints.get("IDX_TGAS") is not None:
                ys[-1][proj.ints["IDX_TGAS"]] = 50.0 + 100.0 * k
        # the second evaluation happens in the same process at another gas temperature (5 K: below the windows the
        # generated reactions carry), as a second Solve / another cell would: nothing may survive from the first call
        fields = R.data_fields(proj)
        pvs = [dict(PV), dict(PV, Tgas=5.0)]
        text = "".join("p " + " ".join(float(pv.get(f, 1.0 if dv is None else dv)).hex() for f, dv in fields.items()) + "\ny " + " ".join(float(v).hex() for v in y) + "\nrun\n" for y, pv in zip(ys, pvs))
        rc, out, err = build.run_driver(exe, text, proj.path)
        if rc != 0 or "AddressSanitizer" in err or "runtime error:" in err or "VT_BOUNDS" in err:
            kind = "asan" if "AddressSanitizer" in err else "ubsan" if "runtime error" in err else "bounds" if "VT_BOUNDS" in err else f"exit{rc}"
            failures.append((f"compiled/sanitizer/{kind}/{method}", f"{method}: {err[-500:]}"))
            continue
        blocks = build.parse_ode_output(out)
        if len(blocks) != len(ys):
            raise RuntimeError(f"ode driver produced {len(blocks)} blocks: {err[-300:]}")
        consts = R.constants_of(proj) if (proj.path / "src" / "naunet_constants.cpp").exists() else {}
        slots = N.slot_of(case, proj)
        fex = proj.fex_polys()
        ent = lays[method]["entries"]
        for y, b, pv in zip(ys, blocks, pvs):
            env = {f"y[{i}]": v for i, v in enumerate(y)}
            env.update({f"k[{i}]": v for i, v in enumerate(b["K"])})
            env.update({f"kh[{i}]": v for i, v in enumerate(b.get("KH", []))})
            env.update({f"kc[{i}]": v for i, v in enumerate(b.get("KC", []))})
            env.update(pv)
            env["kerg"] = consts.get("kerg", 1.380658e-16)
            env["npar"] = sum(y[: proj.nspec])
            # gross magnitude of the terms that may cancel (the normal form has already cancelled them)
            gross = 0.0
            for ri, rc in enumerate(case["reactions"]):
                t = abs(b["K"][ri]) if ri < len(b["K"]) else 0.0
                for i in rc["r"]:
                    t *= y[slots[i]]
                gross += t
            for m in case.get("ode_mod", []):
                from ..ctext.lexer import parse_expression
                from ..ctext.poly import ast_to_poly

                t = abs(ast_to_poly(parse_expression(m["factor"])).evaluate(env)[1])
                for i in m["deps"]:
                    t *= y[slots[i]]
                gross += t
            therm = 0.0
            for j, e in enumerate(case.get("heating", [])):
                t = abs(env.get(f"kh[{j}]", 0.0))
                for i in e["r"]:
                    t *= y[slots[i]]
                therm += t
            for j, e in enumerate(case.get("cooling", [])):
                t = abs(env.get(f"kc[{j}]", 0.0))
                for i in e["r"]:
                    t *= y[slots[i]]
                therm += t
            therm *= abs((env["gamma"] - 1.0) / env["kerg"] / env["npar"]) if env["npar"] else 0.0
            tg = proj.ints.get("IDX_TGAS", -1)
            ymin = min(v for v in y[: proj.nspec]) if proj.nspec else 1.0
            for s, p in fex.items():
                want, scale = p.evaluate(env)
                got = b["F"][s]
                g = therm if s == tg else gross
                if not (abs(got - want) <= 1e-11 * max(scale, abs(want), g) + 1e-290 or (got != got and want != want)):
                    failures.append((f"compiled/fex-differs-from-text/{method}", f"{method}: compiled ydot[{s}] = {got!r}, the text evaluates to {want!r}"))
                    break
            if method == "sparse":
                rp, cv, da = b["RP"], b["CV"], b["DA"]
                if rp != [lays[method]["rowptrs"][i] for i in range(neq + 1)] or cv != [lays[method]["colvals"][i] for i in range(proj.nnz)]:
                    failures.append(("compiled/csr-arrays-differ-from-text", f"sparse: compiled rowptrs/colvals {rp[:6]}/{cv[:6]} differ from the text"))
                    continue
                got_j = {}
                for r in range(neq):
                    for n in range(rp[r], rp[r + 1]):
                        got_j[(r, cv[n])] = da[n]
            else:
                got_j = b["J"]
            for rc_, p in ent.items():
                want, scale = p.evaluate(env)
                got = got_j.get(rc_, 0.0)
                g = (therm if rc_[0] == tg else gross) * 3.0 / (y[rc_[1]] if 0 <= rc_[1] < proj.nspec and y[rc_[1]] else ymin)
                if not abs(got - want) <= 1e-11 * max(scale, abs(want), g) + 1e-290:
                    failures.append((f"compiled/jac-differs-from-text/{method}", f"{method}: compiled J{rc_} = {got!r}, the text evaluates to {want!r}"))
                    break
            extra = [c for c, v in got_j.items() if c not in ent and abs(v) > 1e-11 * gross * 3.0 / ymin + 1e-290]
            if extra:
                failures.append((f"compiled/jac-extra-entry/{method}", f"{method}: compiled Jacobian has non-zero entries {extra[:3]} the text does not assign"))


def check_case(case, tier):
    N.reset_naunet_state()
    failures = []
    extra = {}
    labels = N.network_features(case)
    nontrivial = False
    with N.Scratch() as d, N.ThermalPatch(case):
        try:
            if case.get("rerender"):
                labels.append("rendered-into-existing-project")
                # (the earlier state is only scenery: without the modifiers / thermal processes that may name species of the last reaction)
                N.render(N.build_network(dict(case, reactions=case["reactions"][:-1], ode_mod=[], heating=[], cooling=[])), d, jac_pattern=True, templates="ode",
                         path_as_str=bool(case.get("path_as_str")))
                N.reset_naunet_state()
            net = N.build_network(case)
            projs = N.render(net, d, jac_pattern=True, templates="all" if case.get("compile") else "ode", path_as_str=bool(case.get("path_as_str")))
        except Exception as e:
            import traceback

            tb = traceback.extract_tb(e.__traceback__)
            where = next((f"{fr.filename.split('/')[-1]}:{fr.name}" for fr in reversed(tb) if "/naunet/" in fr.filename), "?")
            failures.append((f"render-raises/{type(e).__name__}@{where}", f"{type(e).__name__}: {e}"))
            projs = {}
        lays = {}
        for method, proj in projs.items():
            try:
                proj.fex_polys()  # subscript bounds of the RHS
                lays[method] = proj.jac_layout()
                check_rate_subscripts(proj, failures, method)
            except LayoutViolation as e:
                failures.append((f"layout/{method}", f"{method}: {e}"))
            except CInvalidC as e:
                failures.append(("layout/invalid-c", f"{method}: {e}"))
        # macros agree between back-ends
        if projs:
            ref = next(iter(projs.values()))
            for method, proj in projs.items():
                for key in ("NEQUATIONS", "NSPECIES", "NREACTIONS", "NNZ", "NELEMENTS"):
                    if proj.ints.get(key) != ref.ints.get(key):
                        failures.append(("layout/macro-disagreement", f"{key}: {ref.method}={ref.ints.get(key)} {method}={proj.ints.get(key)}"))
        if len(lays) == len(projs) and lays:
            base_m = "dense"
            base = lays[base_m]["entries"]
            for method, lay in lays.items():
                ent = lay["entries"]
                if set(ent) != set(base):
                    more = sorted(set(ent) - set(base))[:3]
                    miss = sorted(set(base) - set(ent))[:3]
                    failures.append((f"layout/coordinate-set/{method}", f"{method} vs dense: extra {more} missing {miss}"))
                    continue
                for rc_, v in ent.items():
                    if v != base[rc_]:
                        failures.append((f"layout/value-differs/{method}", f"J{rc_}: dense = {base[rc_]}  {method} = {v}"))
                        break
            # NNZ equals the number of dense entries
            nnz = projs[base_m].nnz
            if nnz != len(base):
                failures.append(("layout/nnz", f"NNZ={nnz} but dense assigns {len(base)} entries"))
            # pattern file
            neq = projs[base_m].neq
            for method, proj in projs.items():
                pf = proj.path / "jac_pattern.dat"
                if not pf.exists():
                    failures.append(("pattern/missing", f"{method}: jac_pattern.dat not written"))
                    continue
                rows = [ln.split() for ln in pf.read_text().split("\n") if ln.strip() != ""]
                ones = set()
                ok = len(rows) == neq and all(len(r) == neq for r in rows)
                if ok:
                    for i, r in enumerate(rows):
                        for j, v in enumerate(r):
                            if v not in ("0", "1"):
                                ok = False
                            elif v == "1":
                                ones.add((i, j))
                if not ok:
                    failures.append(("pattern/shape", f"{method}: pattern is not a {neq}x{neq} 0/1 matrix"))
                elif ones != set(lays[method]["entries"]):
                    failures.append(("pattern/entries", f"{method}: pattern ones differ from stored entries: only-pattern {sorted(ones - set(lays[method]['entries']))[:3]} only-stored {sorted(set(lays[method]['entries']) - ones)[:3]}"))
            if case.get("compile") and not failures:
                labels.append("compiled-cross-check")
                compiled_cross_check(case, projs, lays, failures)
                if case.get("cuda") and not failures:
                    labels.append("cuda-batch-executed")
                    f2, info = CU.run_batch(case["cuda"], projs["dense"], projs["cusparse"], sanitize=True)
                    failures += f2
                    extra = dict(info)
            rowcount = {}
            for (r, c) in base:
                rowcount[r] = rowcount.get(r, 0) + 1
            nontrivial = len(base) >= 1 and (len(rowcount) < neq or any(v >= 2 for v in rowcount.values()))
            if len(rowcount) < neq:
                labels.append("empty-row")
    return CaseResult(failures, nontrivial, labels, sample=N.abridge(case), extra=extra)
