"""C03 — sparse (CSR), dense and Odeint Jacobian layouts agree, are well-formed and in bounds."""
from __future__ import annotations

from hypothesis import strategies as st

from ..gen import model as M
from ..runner import CaseResult
from .. import netcase as N
from ..ctext.extract import LayoutViolation, BACKENDS
from ..ctext.cfile import walk_assignments
from ..ctext.poly import const_int
from ..ctext.lexer import CInvalidC, CParseError
from . import c01, c02

PROPERTY = "C03"
LEVEL = "exploration"
RULE = (
    "C01/C02 networks (incl. the empty network, isolated required species, with/without the thermal equation, with "
    "modifiers) rendered for dense, sparse, cusparse and rosenbrock4, with the Jacobian-pattern file. Validity "
    "predicate: rowptrs[0]==0, non-decreasing, rowptrs[NEQ]==NNZ==len(colvals)==len(data), 0<=col<NEQ strictly "
    "increasing per row; differential: the set of (row,col) and the polynomial at each coordinate are identical in "
    "all four back-ends; every subscript on y, ydot, k, kh, kc, data, rowptrs, colvals, IJth, j(,) lies inside the "
    "size the rendered macros declare; jac_pattern.dat is an NEQxNEQ 0/1 matrix whose ones are exactly the stored "
    "coordinates. Non-trivial = NNZ>=1 and (an empty row or a row with >=2 entries)."
)
ASSUMPTIONS = [
    "cuSPARSE observed as text (InitJac arrays + kernel data[])",
    "thorough tier repeats the layout under ASan/UBSan with exactly-sized buffers through the compile-and-run harness (vtlib.cxx) when available",
]


def budget(tier):
    if tier == "quick":
        return dict(examples=25, shards=16)
    return dict(examples=500, shards=16, shrink_calls=2000)


@st.composite
def _case(draw, big=False):
    case = draw(M.network(max_species=20 if big else 9, max_reactions=40 if big else 10, thermal=True, modifiers=draw(st.booleans())))
    case["route"] = "api"
    return case


def strategy(tier):
    return _case(big=(tier == "thorough"))


def fixed_cases(tier):
    return c02.fixed_cases(tier)


def check_rate_subscripts(proj, failures, tag):
    for which, arr, size in (("EvalRates", "k", proj.nreac), ("EvalHeatingRates", "kh", proj.ints.get("NHEATPROCS", 0)), ("EvalCoolingRates", "kc", proj.ints.get("NCOOLPROCS", 0))):
        try:
            _, stmts = proj.rates_fn(which)
        except CParseError:
            if size == 0:
                continue
            raise
        seen = set()
        for _, lhs, op, rhs in walk_assignments(stmts):
            if lhs[0] == "index" and lhs[1] == ("id", arr):
                n = const_int(lhs[2], proj.ints)
                if not (0 <= n < size):
                    failures.append(("bounds/rate-array", f"{tag}: {which} writes {arr}[{n}] but the array has {size} entries"))
                seen.add(n)


def check_case(case, tier):
    N.reset_naunet_state()
    failures = []
    labels = N.network_features(case)
    nontrivial = False
    with N.Scratch() as d, N.ThermalPatch(case):
        try:
            net = N.build_network(case)
            projs = N.render(net, d, jac_pattern=True)
        except Exception as e:
            import traceback

            tb = traceback.extract_tb(e.__traceback__)
            where = next((f"{fr.filename.split('/')[-1]}:{fr.name}" for fr in reversed(tb) if "/naunet/" in fr.filename), "?")
            failures.append((f"render-raises/{type(e).__name__}@{where}", f"{type(e).__name__}: {e}"))
            projs = {}
        lays = {}
        for method, proj in projs.items():
            try:
                proj.fex_polys()  # subscript bounds of the RHS
                lays[method] = proj.jac_layout()
                check_rate_subscripts(proj, failures, method)
            except LayoutViolation as e:
                failures.append((f"layout/{method}", f"{method}: {e}"))
            except CInvalidC as e:
                failures.append(("layout/invalid-c", f"{method}: {e}"))
        # macros agree between back-ends
        if projs:
            ref = next(iter(projs.values()))
            for method, proj in projs.items():
                for key in ("NEQUATIONS", "NSPECIES", "NREACTIONS", "NNZ", "NELEMENTS"):
                    if proj.ints.get(key) != ref.ints.get(key):
                        failures.append(("layout/macro-disagreement", f"{key}: {ref.method}={ref.ints.get(key)} {method}={proj.ints.get(key)}"))
        if len(lays) == len(projs) and lays:
            base_m = "dense"
            base = lays[base_m]["entries"]
            for method, lay in lays.items():
                ent = lay["entries"]
                if set(ent) != set(base):
                    extra = sorted(set(ent) - set(base))[:3]
                    miss = sorted(set(base) - set(ent))[:3]
                    failures.append((f"layout/coordinate-set/{method}", f"{method} vs dense: extra {extra} missing {miss}"))
                    continue
                for rc_, v in ent.items():
                    if v != base[rc_]:
                        failures.append((f"layout/value-differs/{method}", f"J{rc_}: dense = {base[rc_]}  {method} = {v}"))
                        break
            # NNZ equals the number of dense entries
            nnz = projs[base_m].nnz
            if nnz != len(base):
                failures.append(("layout/nnz", f"NNZ={nnz} but dense assigns {len(base)} entries"))
            # pattern file
            neq = projs[base_m].neq
            for method, proj in projs.items():
                pf = proj.path / "jac_pattern.dat"
                if not pf.exists():
                    failures.append(("pattern/missing", f"{method}: jac_pattern.dat not written"))
                    continue
                rows = [ln.split() for ln in pf.read_text().split("\n") if ln.strip() != ""]
                ones = set()
                ok = len(rows) == neq and all(len(r) == neq for r in rows)
                if ok:
                    for i, r in enumerate(rows):
                        for j, v in enumerate(r):
                            if v not in ("0", "1"):
                                ok = False
                            elif v == "1":
                                ones.add((i, j))
                if not ok:
                    failures.append(("pattern/shape", f"{method}: pattern is not a {neq}x{neq} 0/1 matrix"))
                elif ones != set(lays[method]["entries"]):
                    failures.append(("pattern/entries", f"{method}: pattern ones differ from stored entries: only-pattern {sorted(ones - set(lays[method]['entries']))[:3]} only-stored {sorted(set(lays[method]['entries']) - ones)[:3]}"))
            rowcount = {}
            for (r, c) in base:
                rowcount[r] = rowcount.get(r, 0) + 1
            nontrivial = len(base) >= 1 and (len(rowcount) < neq or any(v >= 2 for v in rowcount.values()))
            if len(rowcount) < neq:
                labels.append("empty-row")
    return CaseResult(failures, nontrivial, labels, sample=N.abridge(case))
