"""C14 — network contents stay consistent under any history of edits (model-based, generated histories)."""
from __future__ import annotations
import os
import tempfile

from hypothesis import strategies as st

from ..runner import CaseResult
from .. import netcase as N
from ..gen import formats as F
from ..gen import lines as L

PROPERTY = "C14"
LEVEL = "exploration"
TECHNIQUE = 'model-based testing with generated edit histories (plain-data operation sequences shrunk by Hypothesis) against a list/dict reference model, invariants after every step; `naunet extend` driven in-process against a model pipeline'
RULE = (
    "Generated edit histories (plain-data operation sequences, so they shrink and replay as one value) over a real "
    "Network and a list/dict reference model: add instance / add (string, format) / add from file / remove by index, "
    "index list, instance, instance list, fresh equal instance / set allowed_species / set required_species / remove "
    "duplicates / append depletion and desorption reactions as `naunet extend` does / reindex; alphabet of 4-9 "
    "species incl. an ion, the electron and an ice species, 4-8 candidate reactions incl. equal-but-distinct ones. "
    "Invariant after every step: reaction_list equals the model's surviving reactions (order; multiset after an "
    "allowed-list change), species = species of surviving reactions + required, find_source_sink() and "
    "where_species() equal recomputation from the survivors, no survivor mentions a disallowed species; at the end a "
    "fresh Network(reactions, allowed_species=L) has the same reactions and species. Second half: `naunet extend` "
    "(in-process CommandTester, scratch cwd) on generated files with every option subset vs. the model pipeline. "
    "Non-trivial = history has a removal followed by a query, or an allowed-list change after >=2 additions."
)
ASSUMPTIONS = [
    "reaction equality in the model = same reactant/product multisets, window and type (no UNKNOWN-typed reactions generated)",
    "one spelling per species inside a history",
]
SPECIES = ["H", "H2", "H+", "e-", "CO", "#CO", "C", "O", "C+", "H2O", "#H2O"]
TYPES = [100, 101, 102]


def budget(tier):
    if tier == "quick":
        return dict(examples=60, shards=16)
    return dict(examples=1500, shards=16, shrink_calls=4000)


@st.composite
def _reaction(draw, names):
    r = [draw(st.sampled_from(names)) for _ in range(draw(st.integers(1, 3)))]
    p = [draw(st.sampled_from(names)) for _ in range(draw(st.integers(0, 3)))]
    w = draw(st.sampled_from([(-1.0, -1.0), (10.0, 300.0), (300.0, 1000.0)]))
    return {"r": r, "p": p, "tmin": w[0], "tmax": w[1], "type": draw(st.sampled_from(TYPES)), "a": draw(st.sampled_from([1.0, 2.5e-10, 3e-9]))}


@st.composite
def _history(draw, maxlen=25):
    names = draw(st.lists(st.sampled_from(SPECIES), min_size=4, max_size=9, unique=True))
    nalpha = draw(st.integers(4, 8))
    alpha = [draw(_reaction(names)) for _ in range(nalpha)]
    if draw(st.booleans()):
        # an equal-but-distinct candidate (same species/window/type, other alpha)
        alpha.append(dict(alpha[0], a=9.9e-9))
    if draw(st.booleans()):
        alpha.append(dict(alpha[1], r=list(reversed(alpha[1]["r"]))))
    K = st.integers(0, len(alpha) - 1)
    I = st.integers(0, 40)
    sub = st.lists(st.sampled_from(names), max_size=len(names), unique=True)
    ops = []
    n = draw(st.integers(1, maxlen))
    for _ in range(n):
        kind = draw(
            st.sampled_from(
                ["add"] * 5 + ["add_str", "add_file", "rm_idx", "rm_idx", "rm_idxs", "rm_inst", "rm_insts", "rm_new", "allow", "allow", "require", "dedupe", "reindex", "append_freeze", "append_desorb"]
            )
        )
        if kind in ("add", "add_str", "rm_new"):
            ops.append({"op": kind, "k": draw(K)})
        elif kind == "add_file":
            ops.append({"op": kind, "ks": draw(st.lists(K, min_size=1, max_size=4))})
        elif kind in ("rm_idx", "rm_inst"):
            # (an index may be given from the end, as Python lists take it: -1 is the last reaction)
            ops.append({"op": kind, "i": draw(I), "from_end": draw(st.integers(0, 3)) == 0})
        elif kind in ("rm_idxs", "rm_insts"):
            ops.append({"op": kind, "is": draw(st.lists(I, min_size=1, max_size=4)), "from_end": draw(st.integers(0, 3)) == 0})
        elif kind == "allow":
            ops.append({"op": kind, "names": draw(st.one_of(st.just([]), sub, st.just(list(names))))})
        elif kind == "require":
            ops.append({"op": kind, "names": draw(sub)})
        elif kind == "dedupe":
            ops.append({"op": kind, "mode": draw(st.sampled_from([None, "brief", "short"]))})
        elif kind == "append_desorb":
            ops.append({"op": kind, "type": draw(st.sampled_from([201, 202, 203]))})
        else:
            ops.append({"op": kind})
    init_allowed = draw(st.one_of(st.just([]), st.just([]), sub))
    return {"kind": "api", "names": names, "alphabet": alpha, "ops": ops, "init_allowed": init_allowed}


@st.composite
def _refilter_case(draw):
    """A network file of any format read with an allowed list, the list changed afterwards (once or twice) - against the
    same file read with the final list (the property's last sentence, for reactions that entered as file lines)."""
    f = draw(L.reaction_file(nmax=8).filter(lambda c: not c.get("elements")))
    names = sorted({n for lr in f["expected"] for n in lr["r"] + lr["p"]})
    sub = st.lists(st.sampled_from(names), min_size=1, max_size=len(names), unique=True)
    lists = [draw(sub)] + [draw(st.one_of(sub, st.just(list(names)), st.just([]))) for _ in range(draw(st.integers(1, 2)))]
    return {"kind": "refilter", "file": f, "lists": lists}


def run_refilter(case, failures):
    from naunet.network import Network

    f = case["file"]
    fd, path = tempfile.mkstemp(prefix="vt-", suffix="." + f["fmt"])
    with os.fdopen(fd, "w") as fh:
        fh.write("\n".join(f["lines"]) + "\n")
    try:
        lists = case["lists"]
        # the Leeds format writes ice species with the prefix G: the network's species symbols say so (as the Leeds example's configuration)
        kw = {"species_kwargs": {"grain_symbol": "GRAIN", "surface_prefix": "G", "bulk_prefix": "@"}} if f["fmt"] == "leeds" else {}
        try:
            want_net = Network(filelist=path, fileformats=f["fmt"], allowed_species=list(lists[-1]) or None, **kw)
            net = Network(filelist=path, fileformats=f["fmt"], allowed_species=list(lists[0]), **kw)
        except Exception:
            return None  # the file/list is refused by the constructor itself: outside this clause
        N_first = len(net.reaction_list)
        try:
            for l in lists[1:]:
                net.allowed_species = list(l)
        except Exception as e:
            try:
                Network(filelist=path, fileformats=f["fmt"], allowed_species=list(l) or None, **kw)
            except Exception:
                return None  # the constructor refuses this list as well: a consistent refusal, outside this clause
            failures.append((f"refilter/{f['fmt']}/raises/{type(e).__name__}", f"allowed_species = {l} after reading the file with {lists[0]}: {type(e).__name__}: {e}"))
            return N_first
        got, want = sorted(view(net)), sorted(view(want_net))
        if got != want:
            failures.append((f"refilter/{f['fmt']}/reactions", f"file read with {lists[0]}, then allowed_species set to {lists[1:]}: {len(got)} reactions {got[:4]} but reading with {lists[-1]} gives {len(want)}: {want[:4]}"))
        elif {s.name for s in net.species} != {s.name for s in want_net.species}:
            failures.append((f"refilter/{f['fmt']}/species", f"species {sorted(s.name for s in net.species)} vs {sorted(s.name for s in want_net.species)}"))
        return N_first
    finally:
        os.unlink(path)


def strategy(tier):
    return st.one_of(_history(25 if tier == "quick" else 60), _history(25 if tier == "quick" else 60), _cli_case(), _refilter_case())


# --------------------------------------------------------------------------------- reference model
def req_key(rc):
    return (tuple(sorted(rc["r"])), tuple(sorted(rc["p"])), rc["tmin"], rc["tmax"], rc["type"])


def species_of(rc):
    return set(rc["r"]) | set(rc["p"])


class Model:
    def __init__(self, allowed):
        self.held = []  # list of (uid, rc)
        self.skipped = []
        self.allowed = list(allowed)
        self.required = []
        self.uid = 0
        self.order_exact = True

    def add(self, rc):
        self.uid += 1
        ent = (self.uid, rc)
        if self.allowed and not species_of(rc) <= set(self.allowed):
            self.skipped.append(ent)
            return None
        self.held.append(ent)
        return ent

    def set_allowed(self, names):
        self.allowed = list(names)
        recorded = self.held + self.skipped
        self.held, self.skipped = [], []
        for ent in recorded:
            if self.allowed and not species_of(ent[1]) <= set(self.allowed):
                self.skipped.append(ent)
            else:
                self.held.append(ent)
        self.order_exact = False

    def species(self):
        s = set(self.required)
        for _, rc in self.held:
            s |= species_of(rc)
        return s

    def source_sink(self):
        re, pr = set(), set()
        for _, rc in self.held:
            re |= set(rc["r"])
            pr |= set(rc["p"])
        return re - pr, pr - re


def mk_reaction(rc, idx=-1):
    from naunet.reactions.reaction import Reaction
    from naunet.reactiontype import ReactionType

    return Reaction(list(rc["r"]), list(rc["p"]), temp_min=rc["tmin"], temp_max=rc["tmax"], alpha=rc["a"], reaction_type=ReactionType(rc["type"]), idxfromfile=idx)


def to_lr(rc, idx=-1):
    return {"fmt": "naunet", "r": rc["r"], "p": rc["p"], "markers_r": [], "a": rc["a"], "b": 0.0, "c": 0.0, "tmin": rc["tmin"], "tmax": rc["tmax"], "idx": idx, "code": rc["type"]}


def view(net):
    return [(tuple(sorted(s.name for s in r.reactants)), tuple(sorted(s.name for s in r.products)), float(r.temp_min), float(r.temp_max), int(r.reaction_type)) for r in net.reaction_list]


def check_invariants(net, model, names, step, failures, opname):
    got = view(net)
    want = [req_key(rc) for _, rc in model.held]
    if (got != want) if model.order_exact else (sorted(got) != sorted(want)):
        failures.append((f"history/reaction-list/after-{opname}", f"step {step} ({opname}): network holds {len(got)} reactions {got[:6]} but the edits leave {len(want)}: {want[:6]}"))
        return False
    if not model.order_exact:
        # adopt the network's order from here on (the multiset agreed)
        pool = list(model.held)
        new = []
        for g in got:
            for j, ent in enumerate(pool):
                if req_key(ent[1]) == g:
                    new.append(pool.pop(j))
                    break
        model.held = new
        model.order_exact = True
    gs = {s.name for s in net.species}
    if gs != model.species():
        failures.append((f"history/species/after-{opname}", f"step {step} ({opname}): species {sorted(gs)} expected {sorted(model.species())}"))
    src, snk = net.find_source_sink()
    wsrc, wsnk = model.source_sink()
    if {s.name for s in src} != wsrc or {s.name for s in snk} != wsnk:
        failures.append((f"history/source-sink/after-{opname}", f"step {step} ({opname}): sources {sorted(s.name for s in src)} sinks {sorted(s.name for s in snk)} expected {sorted(wsrc)} / {sorted(wsnk)}"))
    for nm in names:
        for mode, f in (("all", lambda rc: nm in species_of(rc)), ("reactant", lambda rc: nm in rc["r"]), ("product", lambda rc: nm in rc["p"])):
            w = [i for i, (_, rc) in enumerate(model.held) if f(rc)]
            g = net.where_species(nm, mode)
            if list(g) != w:
                failures.append((f"history/where-species/after-{opname}", f"step {step} ({opname}): where_species({nm},{mode}) = {list(g)} expected {w}"))
                return False
    if model.allowed:
        for r in net.reaction_list:
            bad = [s.name for s in r.reactants + r.products if s.name not in model.allowed]
            if bad:
                failures.append((f"history/disallowed-species-kept/after-{opname}", f"step {step}: reaction mentions disallowed {bad}"))
    return not failures


def run_api(case, failures):
    from naunet.network import Network

    names = case["names"]
    alpha = case["alphabet"]
    model = Model(case["init_allowed"])
    net = Network(allowed_species=list(case["init_allowed"]) or None)
    labels = set()
    removal_then_query = False
    adds = 0
    allow_after_adds = False
    for step, op in enumerate(case["ops"]):
        o = op["op"]
        n = len(model.held)
        if o == "add":
            rc = alpha[op["k"]]
            net.add_reaction(mk_reaction(rc))
            model.add(rc)
            adds += 1
        elif o == "add_str":
            rc = alpha[op["k"]]
            net.add_reaction((F.encode_naunet(to_lr(rc), padded=False), "naunet"))
            model.add(rc)
            adds += 1
        elif o == "add_file":
            fd, path = tempfile.mkstemp(prefix="vt-", suffix=".naunet")
            with os.fdopen(fd, "w") as f:
                for k in op["ks"]:
                    f.write(F.encode_naunet(to_lr(alpha[k]), padded=True) + "\n")
            try:
                net.add_reaction_from_file(path, "naunet")
            finally:
                os.unlink(path)
            for k in op["ks"]:
                model.add(alpha[k])
            adds += len(op["ks"])
        elif o == "rm_idx":
            if n == 0:
                continue
            i = op["i"] % n
            net.remove_reaction(i - n if op.get("from_end") else i)
            if op.get("from_end"):
                labels.add("index-from-the-end")
            model.held.pop(i)
            labels.add("removal")
        elif o == "rm_idxs":
            if n == 0:
                continue
            raw = [i % n for i in op["is"]]  # as a caller would pass it: any order, an index may be named twice
            idxs = set(raw)
            if len(raw) != len(idxs):
                labels.add("index-named-twice")
            if op.get("from_end"):
                labels.add("index-from-the-end")
                net.remove_reaction([raw[0] - n] + list(raw[1:]))  # the first one counted from the end
            else:
                net.remove_reaction(list(raw))
            model.held = [e for j, e in enumerate(model.held) if j not in idxs]
            labels.add("removal")
        elif o == "rm_inst":
            if n == 0:
                continue
            i = op["i"] % n
            net.remove_reaction(net.reaction_list[i])
            k = req_key(model.held[i][1])
            model.held = [e for e in model.held if req_key(e[1]) != k]
            labels.add("removal")
        elif o == "rm_insts":
            if n == 0:
                continue
            idxs = [i % n for i in op["is"]]  # any order, an instance may be named twice
            net.remove_reaction([net.reaction_list[i] for i in idxs])
            ks = {req_key(model.held[i][1]) for i in idxs}
            model.held = [e for e in model.held if req_key(e[1]) not in ks]
            labels.add("removal")
        elif o == "rm_new":
            rc = alpha[op["k"]]
            net.remove_reaction(mk_reaction(rc))
            k = req_key(rc)
            model.held = [e for e in model.held if req_key(e[1]) != k]
            labels.add("removal")
        elif o == "allow":
            net.allowed_species = list(op["names"])
            model.set_allowed(op["names"])
            if adds >= 2:
                allow_after_adds = True
            labels.add("allowed-change")
        elif o == "require":
            net.required_species = list(op["names"])
            model.required = list(op["names"])
        elif o == "dedupe":
            _, dupidx, _ = net.find_duplicate_reaction(op["mode"])
            net.remove_reaction(list(dupidx))
            mode = op["mode"]

            def dk(rc):
                if mode == "brief":
                    return req_key(rc)[:2]
                if mode == "short":
                    k = req_key(rc)
                    return (k[0], k[1], f"{k[2]:7.1f}", f"{k[3]:7.1f}", k[4])
                return req_key(rc)

            seen, keep = set(), []
            for e in model.held:
                if dk(e[1]) in seen:
                    continue
                seen.add(dk(e[1]))
                keep.append(e)
            model.held = keep
            labels.add("dedupe")
        elif o == "reindex":
            net.reindex()
            got = [r.idxfromfile for r in net.reaction_list]
            if got != list(range(len(got))):
                failures.append(("history/reindex", f"step {step}: indices after reindex {got}"))
        elif o in ("append_freeze", "append_desorb"):
            # what `naunet extend --append-*` does, through the same public calls
            from naunet.reactions.reaction import Reaction
            from naunet.reactiontype import ReactionType

            present = sorted({s for _, rc in model.held for s in species_of(rc)})
            spmap = {s.name: s for s in (net.reactants | net.products)}
            for nm in present:
                if o == "append_freeze":
                    if nm.startswith("#") or nm.endswith(("+", "-")):
                        continue
                    rc = {"r": [nm], "p": ["#" + nm], "tmin": -1.0, "tmax": -1.0, "type": 200, "a": 1.0}
                else:
                    if not nm.startswith("#"):
                        continue
                    rc = {"r": [nm], "p": [nm[1:]], "tmin": -1.0, "tmax": -1.0, "type": op["type"], "a": 1.0}
                net.add_reaction(Reaction(list(rc["r"]), list(rc["p"]), alpha=1.0, reaction_type=ReactionType(rc["type"])))
                model.add(rc)
            labels.add("append")
        if "removal" in labels:
            removal_then_query = True
        if not check_invariants(net, model, names + ["#" + x for x in names if not x.startswith("#")], step, failures, o):
            break
    if not failures:
        # constructing with the final allowed list gives the same reactions and species
        fresh = Network(reactions=[mk_reaction(rc) for _, rc in model.held + model.skipped], allowed_species=list(model.allowed) or None, required_species=list(model.required) or None) if (not model.allowed or set(model.required) <= set(model.allowed)) else None
        if fresh is not None:
            if sorted(view(fresh)) != sorted(view(net)):
                failures.append(("history/fresh-network-differs/reactions", f"fresh Network(reactions, allowed={model.allowed}) holds {sorted(view(fresh))[:5]} vs {sorted(view(net))[:5]}"))
            elif {s.name for s in fresh.species} != {s.name for s in net.species}:
                failures.append(("history/fresh-network-differs/species", f"species {sorted(s.name for s in fresh.species)} vs {sorted(s.name for s in net.species)}"))
    return labels, (removal_then_query or allow_after_adds)


# --------------------------------------------------------------------------------- naunet extend
@st.composite
def _cli_case(draw):
    names = draw(st.lists(st.sampled_from(SPECIES), min_size=4, max_size=8, unique=True))
    n = draw(st.integers(1, 8))
    rs = [draw(_reaction(names)) for _ in range(n)]
    if draw(st.booleans()) and rs:
        rs.append(dict(rs[0], a=7e-9))
    opts = {
        "remove_species": draw(st.one_of(st.just([]), st.lists(st.sampled_from(names), min_size=1, max_size=2, unique=True))),
        "reduce_by_species": draw(st.one_of(st.just([]), st.just([]), st.lists(st.sampled_from(names), min_size=2, max_size=len(names), unique=True))),
        "remove_duplicate": draw(st.booleans()),
        "append_depletion": draw(st.booleans()),
        "append_thermal": draw(st.booleans()),
        "append_photon": draw(st.booleans()),
        "append_cr": draw(st.booleans()),
    }
    # the electron has two spellings (e-, E) that denote one species everywhere in naunet (C15): the options may use either
    opts["electron_as"] = draw(st.sampled_from(["e-", "e-", "E"]))
    return {"kind": "cli", "names": names, "reactions": rs, "opts": opts}


def run_cli(case, failures):
    import shutil
    from cleo.application import Application
    from cleo.testers.command_tester import CommandTester
    from naunet.console.commands import ExtendCommand, NewCommand
    from naunet.network import Network
    from naunet.configuration import BaseConfiguration

    rs = case["reactions"]
    o = case["opts"]
    d = tempfile.mkdtemp(prefix="vt-")
    cwd = os.getcwd()
    try:
        os.chdir(d)
        with open("naunet_config.toml", "w") as f:
            f.write(BaseConfiguration("vt").content)
        with open("in.naunet", "w") as f:
            for i, rc in enumerate(rs):
                f.write(F.encode_naunet(to_lr(rc, idx=i + 1), padded=True) + "\n")
        app = Application()
        app.add(ExtendCommand())
        tester = CommandTester(app.find("extend"))
        args = ["in.naunet", "out.naunet"]
        spell = lambda xs: [o.get("electron_as", "e-") if x == "e-" else x for x in xs]
        if o["remove_species"]:
            args.append("--remove-species=" + ",".join(spell(o["remove_species"])))
        if o["reduce_by_species"]:
            args.append("--reduce-by-species=" + ",".join(spell(o["reduce_by_species"])))
        for flag, key in (("--remove-duplicate", "remove_duplicate"), ("--append-depletion", "append_depletion"), ("--append-thermal-desorption", "append_thermal"), ("--append-photon-desorption", "append_photon"), ("--append-cosmic-ray-desorption", "append_cr")):
            if o[key]:
                args.append(flag)
        try:
            rc = tester.execute(" ".join(args))
        except Exception as e:
            failures.append((f"extend/raises/{type(e).__name__}", f"naunet extend {' '.join(args)}: {type(e).__name__}: {e}"))
            return
        if rc != 0 or not os.path.exists("out.naunet"):
            failures.append(("extend/no-output", f"naunet extend {' '.join(args)} -> status {rc}: {tester.io.fetch_error()[-300:]}"))
            return
        N.reset_naunet_state()
        out = Network(filelist="out.naunet", fileformats="naunet")
        # model pipeline: reduce -> remove-species -> remove-duplicate -> append-* -> reindex
        held = list(rs)
        if o["reduce_by_species"]:
            held = [rc_ for rc_ in held if species_of(rc_) <= set(o["reduce_by_species"])]
        if o["remove_species"]:
            held = [rc_ for rc_ in held if not (species_of(rc_) & set(o["remove_species"]))]
        if o["remove_duplicate"]:
            seen, keep = set(), []
            for rc_ in held:
                if req_key(rc_) in seen:
                    continue
                seen.add(req_key(rc_))
                keep.append(rc_)
            held = keep
        base = list(held)
        appended = []
        cur = list(held)

        def present():
            return sorted({s for rc_ in cur for s in species_of(rc_)})

        if o["append_depletion"]:
            for nm in present():
                if not nm.startswith("#") and not nm.endswith(("+", "-")):
                    a = {"r": [nm], "p": ["#" + nm], "tmin": -1.0, "tmax": -1.0, "type": 200, "a": 1.0}
                    appended.append(a)
            cur = cur + appended
        for key, t in (("append_thermal", 201), ("append_photon", 203), ("append_cr", 202)):
            if o[key]:
                add = []
                for nm in present():
                    if nm.startswith("#"):
                        add.append({"r": [nm], "p": [nm[1:]], "tmin": -1.0, "tmax": -1.0, "type": t, "a": 1.0})
                appended += add
                cur = cur + add
        got = view(out)
        nb = len(base)
        if got[:nb] != [req_key(x) for x in base]:
            failures.append(("extend/kept-reactions", f"{' '.join(args)}: kept {got[:nb]} expected {[req_key(x) for x in base]}"))
        elif sorted(got[nb:]) != sorted(req_key(x) for x in appended):
            failures.append(("extend/appended-reactions", f"{' '.join(args)}: appended {sorted(got[nb:])} expected {sorted(req_key(x) for x in appended)}"))
        idxs = [r.idxfromfile for r in out.reaction_list]
        if idxs != list(range(len(idxs))):
            failures.append(("extend/reindex", f"indices in output {idxs}"))
    finally:
        os.chdir(cwd)
        shutil.rmtree(d, ignore_errors=True)


def fixed_cases(tier):
    A = [
        {"r": ["H", "H"], "p": ["H2"], "tmin": -1.0, "tmax": -1.0, "type": 100, "a": 1.0},
        {"r": ["H2", "C+"], "p": ["H", "H", "C+"], "tmin": -1.0, "tmax": -1.0, "type": 100, "a": 1.0},
        {"r": ["CO"], "p": ["#CO"], "tmin": -1.0, "tmax": -1.0, "type": 100, "a": 1.0},
        {"r": ["H+", "e-"], "p": ["H"], "tmin": 10.0, "tmax": 300.0, "type": 100, "a": 1.0},
        {"r": ["H+", "e-"], "p": ["H"], "tmin": 10.0, "tmax": 300.0, "type": 100, "a": 2.0},
    ]
    names = ["H", "H2", "H+", "e-", "CO", "#CO", "C+"]
    h1 = [{"op": "add", "k": 0}, {"op": "add", "k": 1}, {"op": "add", "k": 2}, {"op": "add", "k": 3}, {"op": "rm_idx", "i": 2}, {"op": "add", "k": 4}, {"op": "rm_inst", "i": 2}]
    h2 = [{"op": "add", "k": 0}, {"op": "add", "k": 1}, {"op": "add", "k": 3}, {"op": "allow", "names": ["H", "H2", "H+", "e-"]}, {"op": "allow", "names": ["H", "H2"]}, {"op": "allow", "names": []}, {"op": "append_freeze"}, {"op": "append_desorb", "type": 201}]
    cli = {"kind": "cli", "names": names, "reactions": A, "opts": {"remove_species": ["C+"], "reduce_by_species": [], "remove_duplicate": True, "append_depletion": True, "append_thermal": True, "append_photon": False, "append_cr": False}}
    return [
        {"kind": "api", "names": names, "alphabet": A, "ops": h1, "init_allowed": []},
        {"kind": "api", "names": names, "alphabet": A, "ops": h2, "init_allowed": []},
        cli,
    ]


def check_case(case, tier):
    N.reset_naunet_state()
    failures = []
    if case["kind"] == "cli":
        run_cli(case, failures)
        labels = ["cli-extend"] + [k for k, v in case["opts"].items() if v and k != "electron_as"]
        if case["opts"].get("electron_as") == "E" and "e-" in case["opts"]["remove_species"] + case["opts"]["reduce_by_species"]:
            labels.append("electron-spelled-E-in-option")
        return CaseResult(failures, True, labels, sample={"extend": case["opts"], "n": len(case["reactions"])})
    if case["kind"] == "refilter":
        n_first = run_refilter(case, failures)
        if n_first is None:
            return CaseResult(discarded=True)
        f = case["file"]
        return CaseResult(failures, n_first < len(f["expected"]), ["refilter-file", f"refilter-{f['fmt']}"] + (["krome-own-layout"] if f["fmt"] == "krome" and not f.get("standard_layout") else []),
                          sample={"fmt": f["fmt"], "lists": case["lists"], "lines": f["lines"][:3]})
    labels, nontrivial = run_api(case, failures)
    return CaseResult(failures, nontrivial, ["api-history"] + sorted(labels), sample={"ops": case["ops"][:10], "alphabet": [f"{' + '.join(r['r'])} -> {' + '.join(r['p'])}" for r in case["alphabet"]]})
