"""C18 — writing a network and reading it back preserves the model; export + re-render keeps the rate laws."""
from __future__ import annotations
import math
import os
import tempfile

from hypothesis import strategies as st

from ..gen import lines as L
from ..gen import formats as F
from ..runner import CaseResult
from .. import netcase as N
from .. import ratecase as R
from ..ctext.extract import Project
from ..ctext.lexer import CParseError, CInvalidC
from ..ctext.interp import UndeclaredSymbol
from . import c05, c07

PROPERTY = "C18"
LEVEL = "exploration"
TECHNIQUE = "property-based testing (Hypothesis): round-trip oracle (write native -> read -> write: field-wise equality within the printed precision, idempotent second cycle, same species and ODE polynomials) and differential oracle (direct rendering vs. export + `naunet render` in a fresh process, rate statements evaluated numerically)"
RULE = (
    "Networks read from generated files of every input format (C07's generators: KIDA, UMIST, Leeds, UCLCHEM, KROME, "
    "native) are written with Network.write(..., 'naunet'), read back with Network(file, 'naunet') and written "
    "again. Oracle: same number and order of reactions; equal reactant/product multisets, window (to 0.005), type "
    "code, index, source tag; alpha/beta/gamma within the printed precision (5e-4 relative); the second file is "
    "byte-identical to the first; same species list and the same C01 right-hand-side polynomials. Export clause "
    "(gas-phase networks): Network.export() then `naunet render -f` in the exported directory in a fresh process; "
    "each re-rendered k[i], evaluated at 3 generated parameter points, equals the direct rendering's k[i] (1e-3 "
    "relative, the printed precision) unless export/re-rendering raised. Non-trivial = a non-two-body type, 3 "
    "reactants / 5 products, a negative coefficient, or a window."
)
ASSUMPTIONS = [
    "the native format prints alpha/beta/gamma with 4 significant digits and bounds with 2 decimals: equality is asserted to that precision",
    "export clause restricted to gas-phase reactions (no grain model), helper functions stubbed identically on both sides",
]


def budget(tier):
    if tier == "quick":
        return dict(examples=40, shards=16, shrink_calls=80)
    return dict(examples=500, shards=16, shrink_calls=1200)


@st.composite
def _case(draw):
    kind = draw(st.sampled_from(["roundtrip", "roundtrip", "export"]))
    if kind == "roundtrip":
        f = draw(L.reaction_file(nmax=10))
        f["lines"] = [ln for ln in f["lines"]]
        # edit the network through the API between reading and writing
        f["edit"] = draw(st.sampled_from(["none", "none", "remove+reindex", "reindex", "change-coefficients", "add-wide-api-reaction"]))
        if f["edit"] == "add-wide-api-reaction":
            # "built through the API": the constructor takes any number of reactants and products; the native line has 3 + 5 columns
            f["wide"] = draw(st.sampled_from([[["H", "H", "H", "H"], ["H2", "H2"]], [["C2H6", "He+"], ["C", "C", "H2", "H2", "H2", "He+"]],
                                              [["H2", "H2"], ["H", "H", "H", "H", "e-", "H+"]], [["H", "H", "H"], ["H2", "H"]]]))
        return {"kind": "roundtrip", "file": f}
    api = draw(st.integers(0, 3)) == 0
    c = draw(c05._case(nmax=10, fmt="naunet" if api else None))
    c["kind"] = "export"
    # the exported project must also carry the rate modifiers (the user's own rate laws); route "api" builds the same
    # native reactions through the API, i.e. without file indices (modifiers are then positional)
    c["api"] = api
    nl = max(1, len(c["lines"]))
    c["rate_mod"] = draw(st.dictionaries(st.integers(0, nl - 1), st.sampled_from(["0.0", "2.5e-10", "1.0e-9 * sqrt(Tgas)", "-3.0e-11 * exp(-Tgas/100.0)"]), min_size=1, max_size=3)) if draw(st.booleans()) else {}
    c["rate_mod"] = {str(k): v for k, v in c["rate_mod"].items()}
    # the network may be exported *back* into its project directory: a project set up around another network file
    # (naunet init), loaded, edited and exported with overwrite=True
    c["into_existing_project"] = draw(st.integers(0, 2)) == 0
    c["lines"] = [lr for lr in c["lines"] if not (lr["fmt"] == "kida" and lr["code"] == 6)] or c["lines"][:1]
    for lr in c["lines"]:
        if lr["fmt"] == "kida" and lr["code"] == 6:
            lr["code"] = 3
        # keep coefficients inside the native format's %10.3e columns
        for k in "abc":
            if abs(lr[k]) > 1e90 or (lr[k] != 0 and abs(lr[k]) < 1e-90):
                lr[k] = 1.0
    return c


def strategy(tier):
    return _case()


def fixed_cases(tier):
    out = []
    for fc in c07.fixed_cases(tier):
        out.append({"kind": "roundtrip", "file": fc})
    for fc in c05.fixed_cases(tier):
        out.append(dict(fc, kind="export"))
    return out


def rview(r):
    return dict(
        r=sorted(s.name for s in r.reactants),
        p=sorted(s.name for s in r.products),
        a=r.alpha, b=r.beta, c=r.gamma, tmin=float(r.temp_min), tmax=float(r.temp_max),
        t=int(r.reaction_type) if r.reaction_type is not None else None, idx=r.idxfromfile, src=r.source,
    )


def close_rel(x, y, rel):
    return x == y or abs(x - y) <= rel * max(abs(x), abs(y))


def roundtrip(case, failures, labels):
    from naunet.network import Network

    f = case["file"]
    fmt = f["fmt"]
    labels.append(f"fmt-{fmt}")
    net0 = c07.read_network(f)
    if any(r.reaction_type is None for r in net0.reaction_list):
        labels.append("untyped-reaction")  # (Leeds 15-19 before the fix c248e8a): the write below must still work
    edit = f.get("edit", "none")
    if edit != "none":
        labels.append(f"edited-{edit}")
        if edit == "remove+reindex" and len(net0.reaction_list) >= 2:
            net0.remove_reaction(0)
        if edit in ("remove+reindex", "reindex"):
            net0.reindex()
        if edit == "add-wide-api-reaction":
            from naunet.reactions.reaction import Reaction
            from naunet.reactiontype import ReactionType

            if f.get("elements"):
                return True  # (custom symbol lists: the fixed species names of the added reaction may not parse)
            net0.add_reaction(Reaction(list(f["wide"][0]), list(f["wide"][1]), 10.0, 300.0, 1.0e-10, 0.0, 0.0, ReactionType.GAS_TWOBODY, 7777))
            wide = len(f["wide"][0]) > 3 or len(f["wide"][1]) > 5
            labels.append("reaction-wider-than-the-native-line" if wide else "api-reaction-added")
        if edit == "change-coefficients":
            for k, r in enumerate(net0.reaction_list):
                r.alpha = 1.5e-10 * (k + 1)
                r.temp_max = 1234.5
    d = tempfile.mkdtemp(prefix="vt-")
    try:
        p1, p2 = os.path.join(d, "a.naunet"), os.path.join(d, "b.naunet")
        try:
            net0.write(p1, "naunet")
            net1 = Network(filelist=p1, fileformats="naunet")
        except Exception as e:
            import traceback

            tb = traceback.extract_tb(e.__traceback__)
            where = next((f"{fr.filename.split('/')[-1]}:{fr.name}" for fr in reversed(tb) if "/naunet/" in fr.filename), "?")
            key = f"roundtrip/raises/{type(e).__name__}@{where}"
            if edit == "add-wide-api-reaction" and (len(f["wide"][0]) > 3 or len(f["wide"][1]) > 5) and isinstance(e, ValueError) and "native" in str(e):
                labels.append("refused-at-write-time")  # the line cannot hold the reaction: refused with an error, not altered
                return True
            if fmt == "leeds" and "unrecognizable" in str(e) and any(s.is_surface for r in net0.reaction_list for s in r.reactants + r.products):
                key = "roundtrip/raises/non-default-surface-prefix"  # the native reader parses species with the default '#'
            failures.append((key, f"{fmt}: first write/read cycle: {type(e).__name__}: {e}"))
            return True
        v0 = [rview(r) for r in net0.reaction_list]
        v1 = [rview(r) for r in net1.reaction_list]
        if len(v0) != len(v1):
            failures.append(("roundtrip/count", f"{fmt}: {len(v0)} reactions written, {len(v1)} read back"))
            return True
        for k, (a, b) in enumerate(zip(v0, v1)):
            for key in ("r", "p"):
                if a[key] != b[key]:
                    failures.append((f"roundtrip/species/{'reactants' if key == 'r' else 'products'}", f"{fmt} reaction {k}: {a[key]} read back as {b[key]}"))
            for key in "abc":
                if not close_rel(a[key], b[key], 5e-4):
                    failures.append(("roundtrip/coefficient", f"{fmt} reaction {k}: {key}={a[key]!r} read back as {b[key]!r}"))
            for key in ("tmin", "tmax"):
                if abs(a[key] - b[key]) > 0.005 + 1e-9:
                    failures.append(("roundtrip/window", f"{fmt} reaction {k}: {key}={a[key]!r} read back as {b[key]!r}"))
            if a["t"] != b["t"]:
                failures.append((f"roundtrip/type/{fmt}:{a['t']}", f"{fmt} reaction {k}: type {a['t']} read back as {b['t']}"))
            if a["idx"] != b["idx"]:
                failures.append(("roundtrip/index", f"{fmt} reaction {k}: index {a['idx']} read back as {b['idx']}"))
            if a["src"] != b["src"]:
                failures.append(("roundtrip/source-tag", f"{fmt} reaction {k}: source {a['src']!r} read back as {b['src']!r}"))
            if failures:
                return True
        if [s.name for s in net0.species] != [s.name for s in net1.species]:
            failures.append(("roundtrip/species-list", f"{fmt}: species {[s.name for s in net0.species][:8]} vs {[s.name for s in net1.species][:8]}"))
        try:
            net1.write(p2, "naunet")
            t1, t2 = open(p1).read(), open(p2).read()
            if t1 != t2:
                import difflib

                dl = [l for l in difflib.unified_diff(t1.splitlines(), t2.splitlines(), lineterm="", n=0)][2:6]
                failures.append(("roundtrip/second-cycle-not-identical", f"{fmt}: second write differs: {dl}"))
            net2 = Network(filelist=p2, fileformats="naunet")
            if [rview(r) for r in net2.reaction_list] != v1:
                failures.append(("roundtrip/second-read-differs", f"{fmt}: reading the second file gives different reactions"))
        except Exception as e:
            failures.append((f"roundtrip/second-cycle-raises/{type(e).__name__}", f"{fmt}: {type(e).__name__}: {e}"))
        # same ODE structure: right-hand-side polynomials of both networks (gas-phase types only render without a grain model)
        if not failures and all((r.reaction_type is not None and int(r.reaction_type) in (100, 101, 102, 110, 111, 120)) for r in net0.reaction_list) and fmt != "krome":
            with N.Scratch() as dd:
                try:
                    pa = N.render(net0, dd / "a", backends=[("cvode", "dense", "cpu")])["dense"]
                    pb = N.render(net1, dd / "b", backends=[("cvode", "dense", "cpu")])["dense"]
                except NotImplementedError:
                    return True
                if pa.idx_table() != pb.idx_table() or pa.fex_polys() != pb.fex_polys():
                    failures.append(("roundtrip/ode-structure", f"{fmt}: the re-read network renders a different right-hand side"))
    finally:
        import shutil

        shutil.rmtree(d, ignore_errors=True)
    return True


def render_exported(payload):
    from ..checks import c13

    try:
        return c13.render_config_route(payload)
    except Exception as e:  # naunet's render command refused the exported project (runs in the fresh process)
        return {"status": -1, "files": {}, "err": f"{type(e).__name__}: {e}"[:300], "raised": type(e).__name__}


def export_clause(case, failures, labels):
    from ..proc.call import call

    fmt = case["fmt"]
    lrs = case["lines"]
    labels.append(f"export-{fmt}")
    extra = []
    if fmt == "uclchem":
        extra = ["H,H,NAN,H2,NAN,NAN,NAN,1e-17,0.0,0.0,0.0,0.0"]
    if fmt == "leeds":
        extra = [F.encode_leeds({"r": ["H2", "CO"], "p": ["N2", "H2O"], "a": 1e-10, "b": 0.0, "c": 0.0, "tmin": 0, "tmax": 0, "idx": 1, "code": 1})]
    off = len(extra)
    api = bool(case.get("api")) and fmt == "naunet"
    mods = {int(k): v for k, v in (case.get("rate_mod") or {}).items() if int(k) < len(lrs)}
    if api:
        labels.append("api-built-unindexed")
    if mods:
        labels.append("rate-modifier")

    def build():
        if api:
            from naunet.network import Network
            from naunet.reactions.reaction import Reaction
            from naunet.reactiontype import ReactionType

            net = Network(reactions=[Reaction(list(lr["r"]), list(lr["p"]), float(lr["tmin"]), float(lr["tmax"]), lr["a"], lr["b"], lr["c"], ReactionType(int(lr["code"])), -1) for lr in lrs])
            keyof = lambda pos: pos  # unindexed: the renderer numbers the reactions by position
        else:
            net = c05.build_file_network(fmt, lrs, case.get("variant", {}), extra)
            # index-less formats (UCLCHEM, KROME without idx): the renderer numbers the reactions by position
            keyof = lambda pos: (net.reaction_list[pos + off].idxfromfile if net.reaction_list[pos + off].idxfromfile != -1 else pos + off)
        if mods:
            net.rate_modifier = {keyof(pos): expr for pos, expr in mods.items()}
        return net

    if api:
        off = 0
    with N.Scratch() as d:
        try:
            net = build()
            direct = R.render_rates(net, d / "direct", backends=(("cvode", "dense", "cpu"),))["dense"]
        except Exception:
            return False  # the direct rendering itself is refused: nothing to compare
        N.reset_naunet_state()
        if case.get("into_existing_project"):
            from . import c17

            labels.append("export-into-existing-project")
            old = {"fmt": "kida", "text": "\n".join(L.encode(c17._lr("kida", r, p, 3, i + 1)) for i, (r, p) in enumerate([(["C", "CH"], ["C2", "H"]), (["O", "H2"], ["OH", "H"])])) + "\n",
                   "surface": "#", "elements": [], "pseudo": [], "replacement": {}, "allowed": [], "required": [], "binding": {}, "yields": {}, "grain_model": "",
                   "rate_mod": {}, "ode_mod": {}, "backend": ["cvode", "dense", "cpu"]}
            c17._write_project(old, d / "vtexp")
        net = build()
        try:
            net.export("vtexp", solver="cvode", method="dense", device="cpu", prefix=str(d), overwrite=True)
        except Exception as e:
            # the direct rendering of this network worked, so it is a network naunet supports: "writing any network"
            # must not crash (a refusal is only acceptable at re-rendering time, where the law would be lost)
            import traceback

            tb = traceback.extract_tb(e.__traceback__)
            where = next((f"{fr.filename.split('/')[-1]}:{fr.name}" for fr in reversed(tb) if "/naunet/" in fr.filename), "?")
            failures.append((f"export/raises/{type(e).__name__}@{where}", f"{fmt}: Network.export() of a network that renders directly raised {type(e).__name__}: {e}"))
            return True
        res = call("vtlib.checks.c18", "render_exported", {"dir": str(d / "vtexp"), "files": []})
        if res["status"] != 0:
            labels.append("re-render-refused" + (f"-{res['raised']}" if res.get("raised") else ""))
            return True  # refused with an error: allowed by the property
        again = Project(d / "vtexp", "cvode", "dense", "cpu")
        if again.nreac != direct.nreac:
            failures.append(("export/reaction-count", f"{fmt}: {direct.nreac} reactions rendered directly, {again.nreac} after export"))
            return True
        for P in case["points"]:
            P = dict(P)
            try:
                k0, _ = R.eval_rates(direct, P)
                k1, _ = R.eval_rates(again, P)
            except (UndeclaredSymbol, CInvalidC, CParseError) as e:
                labels.append("re-render-not-evaluable")
                from ..cxx import build

                diags = build.syntax_check(again.path, files=["naunet_rates.cpp"])
                if diags:
                    failures.append((f"export/re-rendered-source-does-not-compile/{fmt}", f"{diags[0][1][0]}"))
                    return True
                raise
            for i, lr in enumerate(lrs):
                a, b = k0[i + off], k1[i + off]
                if not R.close(a, b, 1e-3):
                    if not (math.isfinite(a) and math.isfinite(b)):
                        continue
                    key = f"export-law/{fmt}:{lr['code']}"
                    if i in mods:
                        key = f"export/rate-modifier-not-carried/{'api-unindexed' if api else 'file'}"
                    if all(k != key for k, _ in failures):
                        failures.append((key, f"{fmt} code {lr['code']!r} (first reactant {lr['r'][0]}): direct k={a!r}, exported-and-re-rendered k={b!r} at T={P['Tgas']:.4g}"))
    return True


def check_case(case, tier):
    N.reset_naunet_state()
    failures = []
    labels = [case["kind"]]
    if case["kind"] == "roundtrip":
        ok = roundtrip(case, failures, labels)
        f = case["file"]
        if not ok:
            return CaseResult(discarded=True)
        nontriv = any(lr.get("code") not in (3, 1, "", 100, "NN") or len(lr["r"]) >= 3 or len(lr["p"]) >= 5 or min(lr["a"], lr["b"], lr["c"]) < 0 or lr["tmin"] > 0 for lr in f["expected"])
        return CaseResult(failures, nontriv, labels, sample={"fmt": f["fmt"], "lines": f["lines"][:3]})
    ok = export_clause(case, failures, labels)
    if not ok:
        return CaseResult(discarded=True)
    for lr in case["lines"]:
        labels.append(f"{case['fmt']}:{lr['code']}")
    return CaseResult(failures, True, sorted(set(labels)), sample={"fmt": case["fmt"], "codes": [lr["code"] for lr in case["lines"]][:8]})
