"""C12 — KROME rate expressions keep their value when translated from Fortran to C."""
from __future__ import annotations
import math
import re
from pathlib import Path

from hypothesis import strategies as st

from ..runner import CaseResult
from .. import netcase as N
from ..ref import fortran as FT
from ..ctext.lexer import parse_expression, CParseError, CInvalidC
from ..ctext.interp import Interp, CArray, UndeclaredSymbol
from .. import ratecase as R

PROPERTY = "C12"
LEVEL = "exploration"
TECHNIQUE = "property-based testing (Hypothesis): expression trees derived from the translator's grammar rendered to Fortran, translated by KROMEReaction.rateexpr(), both evaluated (independent Fortran-semantics evaluator vs. C interpreter) at random valuations; @var definitions over KROME's shortcuts rendered into EvalRates and evaluated there; bundled KROME networks replayed as corpus"
RULE = (
    "Expression trees (depth <= 4 quick / 6 thorough) over the translator's grammar: d/e exponents, signed literals, "
    "nested parentheses, chains a**b**c, a/b/c, a-b-c, single-argument intrinsics (exp log log10 sqrt dexp abs), "
    "built-in and user @var/@common names, n(idx_X) for one/two-letter species, counts and charges p/m; rendered to "
    "Fortran text with only the parentheses Fortran needs, with and without blanks. The text goes through a KROME "
    "reaction line into KROMEReaction.rateexpr(); its C text is evaluated by my C interpreter and compared "
    "(rel 1e-12, nan<->nan, inf==inf) with my Fortran-semantics evaluator (** tightest and right-associative, unary "
    "minus below **, left-associative * / + -) at 5 random positive valuations; every n(idx_X) must become "
    "y[IDX_<alias of X>]. Near-misses (unary minus on a variable, d+ exponents, upper-case D, unbalanced "
    "parentheses) must either raise or keep the value. All rate columns of the bundled primordial.krome and "
    "deuterium.krome are replayed through my own Fortran parser. Intrinsics also in upper case and by their double-precision names; a "
    "family <ident><sign><literal>**<x> the unchanged tree reads correctly; one case in twelve defines a user variable by an @var line "
    "(expression over Tgas, T32, invT, Te, invTe, lnTe, sqrTgas), uses it in a rate and compares k[0] of the rendered EvalRates "
    "(C interpreter; text it cannot read is a violation) with the Fortran value at three temperatures. Non-trivial = tree has ** with a non-literal "
    "operand, >=2 chained same-level operators, a d exponent, or n(idx_)."
)
ASSUMPTIONS = [
    "integer/integer division (Fortran integer arithmetic) is excluded by construction: KROME rates are real-valued",
    "multi-argument intrinsics: naunet splits a KROME line at every comma, so max(a,b) cannot reach the translator whole; the near-miss 'comma-in-rate' checks that what is left is refused rather than translated",
    "the alias naunet documents: name + I*(charge+1) for q>=0, M*|q| for q<0; electron 'E' -> 'EM'",
]
VARS = ["Tgas", "T32", "invT", "Te", "invTe", "lnTe", "sqrTgas", "vt_a", "vtb2", "x_1", "user_crate"]
RISKY_VARS = ["c1d2"]  # identifiers that look like d-exponent literals inside
FUNCS = ["exp", "log", "log10", "sqrt", "dexp", "abs"]
# Fortran is case-insensitive: EXP(x) is exp(x). (Mixed case such as Exp is refused by the translator's lexer, which the property allows.)
FUNCS_UPPER = ["EXP", "LOG", "LOG10", "SQRT", "DEXP", "ABS"]
# the double-precision specific names (dexp is in FUNCS: naunet names it; the others are the same family)
FUNCS_DP = ["dlog", "dlog10", "dsqrt", "dabs"]
SPECIES = {  # KROME idx token -> (alias suffix rule) expected alias
    "H": "HI", "D": "DI", "C": "CI", "O": "OI", "He": "HeI", "H2": "H2I", "CO": "COI", "H2O": "H2OI",
    "Hp": "HII", "Hm": "HM", "Cp": "CII", "H2p": "H2II", "Hep": "HeII", "Hepp": "HeIII", "E": "EM", "HD": "HDI",
    # neutral species whose names end in letters that also spell a charge suffix in lower case (phosphorus: P; no 'p')
    "CP": "CPI", "HCP": "HCPI", "PN": "PNI", "PH": "PHI", "CPp": "CPII",
}
NUMS = ["1.0d-10", "2.d0", "1d0", "3.0e2", "0.5", "7", "2", "1.5d-3", "6.9e-1", "3.92d-13", "0.6353d0", "100", "1e3", "2.5", "4.0d0",
        "2d0", "3d0", "5d0", "3d2"]  # double-precision literals without a decimal point: reals, whatever follows (2d0/3d0 is 0.667)


def budget(tier):
    if tier == "quick":
        return dict(examples=400, shards=16)
    return dict(examples=10000, shards=16, shrink_calls=3000)


SHORTCUTS = ["Tgas", "T32", "invT", "Te", "invTe", "lnTe", "sqrTgas"]  # what KROME offers to rates and to @var lines alike


def _tree(depth, variables=None, species=True):
    variables = variables or VARS
    leaf = st.one_of(
        st.sampled_from(NUMS).map(lambda t: ["num", t]),
        st.sampled_from(variables).map(lambda v: ["var", v]),
        st.sampled_from(variables).map(lambda v: ["var", v]),
        st.sampled_from(sorted(SPECIES)).map(lambda s: ["n", s]) if species else st.sampled_from(variables).map(lambda v: ["var", v]),
        st.sampled_from(NUMS).map(lambda t: ["neg", ["num", t]]),
    )

    def extend(children):
        return st.one_of(
            st.tuples(st.sampled_from(["+", "-", "*", "/", "**", "**"]), children, children).map(lambda t: ["bin", t[0], t[1], t[2]]),
            st.tuples(st.sampled_from(FUNCS * 4 + FUNCS_UPPER + FUNCS_DP), children).map(lambda t: ["fn", t[0], t[1]]),
            children.map(lambda c: ["par", c]),
        )

    return st.recursive(leaf, extend, max_leaves=2 ** depth)


@st.composite
def _case(draw, depth):
    kind = draw(st.sampled_from(["grammar"] * 8 + ["near-miss"] * 2 + ["shape", "var-definition"]))
    if kind == "var-definition":
        # the user variable a rate refers to is defined by an @var line whose right-hand side is a Fortran expression as well:
        # the rate coefficient the generated EvalRates computes is the Fortran value of <rate> with that definition
        return {"kind": "var-definition", "tree": draw(_tree(min(depth, 3), variables=SHORTCUTS, species=False)), "sp": draw(st.sampled_from(["", " "])),
                "seedvals": draw(st.integers(0, 10 ** 6))}
    if kind == "shape":
        # <identifier><sign><literal>**<x> with nothing else at that level: the unchanged translator reads every member of this family
        # correctly (unlike the recorded glued-literal finding, which needs a further additive term); kept as a family of its own so
        # that a misreading here is reported and not filed under that finding
        pre, post = draw(st.sampled_from([("", ""), ("1.0d-10*(", ")"), ("exp(", ")"), ("vtb2*(", ")*2.0d0"), ("1.5d-3/(", ")")]))
        text = (pre + draw(st.sampled_from(["Tgas", "T32", "invT", "vt_a", "x_1"])) + draw(st.sampled_from(["+", "-"])) + draw(st.sampled_from(["2.0", "0.5d0", "3.0e2", "1.5d-3", "7", "2d0"]))
                + "**" + draw(st.sampled_from(["2.0", "vt_a", "(0.5)", "2", "invT"])) + post)
        return {"kind": "text", "text": text, "seedvals": draw(st.integers(0, 10 ** 6)), "family": "ident-sign-literal-power"}
    tree = draw(_tree(depth))
    if draw(st.integers(0, 14)) == 0:
        # a signed literal directly in front of ** (inside the translator's grammar through its signed numbers)
        tree = ["neg", ["bin", "**", ["num", draw(st.sampled_from(NUMS))], tree]]
    case = {"kind": kind, "tree": tree, "sp": draw(st.sampled_from(["", "", " "])), "seedvals": draw(st.integers(0, 10 ** 6))}
    if kind == "near-miss":
        case["miss"] = draw(st.sampled_from(["neg-var", "neg-var-pow", "neg-var-pow", "d-plus", "upper-D", "unbalanced", "risky-ident", "comma-in-rate"]))
    return case


def strategy(tier):
    return _case(4 if tier == "quick" else 6)


def fixed_cases(tier):
    out = []
    for text in ["a**b**c", "-2**2", "a/b/c", "a-b-c", "a-(b-c)", "a/(b/c)", "1d-3*(T32)**(-0.5)", "2.0d-10/(Tgas/3.0d2)", "exp(-1.0d2/(Tgas/2.0d0))",
                 "1.0d-10*(T32-0.5d0**2.0)", "exp(invT+2.0**vt_a)", "n(idx_Hp)/(n(idx_H)/vt_a)", "n(idx_H2)*n(idx_E)", "3.92d-13*invTe**0.6353d0"]:
        t = text.replace("a", "vt_a").replace("vt_vt_a", "vt_a").replace("b", "vtb2").replace("c", "x_1") if re.fullmatch(r"[abc/*()\-]+", text) else text
        out.append({"kind": "text", "text": t, "seedvals": 7})
    # the bundled KROME networks' rate columns
    ex = Path("/repo/naunet/examples")
    for f in (ex / "primordial" / "primordial.krome", ex / "deuterium" / "deuterium.krome"):
        if f.exists():
            out.append({"kind": "corpus-file", "path": str(f), "seedvals": 11})
    return out


def valuation(seed, names, k):
    """k-th deterministic positive valuation (no RNG: a fixed low-discrepancy sequence keyed by the case)."""
    env = {}
    for j, nme in enumerate(sorted(names)):
        x = math.modf((seed + 1) * 0.6180339887498949 + (j + 1) * 0.7548776662466927 + (k + 1) * 0.5698402909980532)[0]
        env[nme] = 0.2 + 3.8 * x
    return env


def translate(rate_text, fmt_cols="idx,r,r,r,p,p,p,p,p,tmin,tmax,rate"):
    from naunet.reactions.kromereaction import KROMEReaction

    KROMEReaction.initialize()
    line = f"1,H,H,,H2,,,,NONE,NONE,{rate_text}"
    r = KROMEReaction(line)
    first = r.rateexpr()
    again = r.rateexpr()  # str(reaction), Network.write(..., "krome") and every rendering call it again
    if again != first:
        raise NotRepeatable(first, again)
    return first


class NotRepeatable(Exception):
    pass


def eval_c(ctext, env, nvals):
    ast = parse_expression(ctext)
    macros = {f"IDX_{al}": i for i, (tok, al) in enumerate(sorted(SPECIES.items()))}
    y = CArray("y", len(macros), 0.0)
    for i, (tok, al) in enumerate(sorted(SPECIES.items())):
        y.data[i] = nvals[tok]
    it = Interp(consts=macros, funcs={}, globals_=dict(env, y=y))
    return it.eval(ast)


def left_assoc(node):
    """The known-wrong reading: chains of ** associated to the left."""
    k = node[0]
    if k == "bin":
        l, r = left_assoc(node[2]), left_assoc(node[3])
        if node[1] == "**" and r[0] == "bin" and r[1] == "**":
            return left_assoc(["bin", "**", ["bin", "**", l, r[2]], r[3]])
        return ["bin", node[1], l, r]
    if k in ("neg", "par"):
        return [k, left_assoc(node[1])]
    if k == "fn":
        return ["fn", node[1], left_assoc(node[2])]
    return node


def signed_base(node):
    """The other known-wrong reading: -<literal>**x taken as (-literal)**x."""
    k = node[0]
    if k == "neg" and node[1][0] == "bin" and node[1][1] == "**":
        b = node[1]
        base = b[2]
        # descend to the left-most base of a chain
        if base[0] == "num":
            return ["bin", "**", ["neg", base], signed_base(b[3])]
    if k == "bin":
        return ["bin", node[1], signed_base(node[2]), signed_base(node[3])]
    if k in ("neg", "par"):
        return [k, signed_base(node[1])]
    if k == "fn":
        return ["fn", node[1], signed_base(node[2])]
    return node


def strip_par(node):
    k = node[0]
    if k == "par":
        return strip_par(node[1])
    if k == "bin":
        return ["bin", node[1], strip_par(node[2]), strip_par(node[3])]
    if k == "neg":
        return ["neg", strip_par(node[1])]
    if k == "fn":
        return ["fn", node[1], strip_par(node[2])]
    return node


def names_in(node, acc):
    k = node[0]
    if k == "var":
        acc.add(node[1])
    elif k == "bin":
        names_in(node[2], acc), names_in(node[3], acc)
    elif k in ("neg", "par"):
        names_in(node[1], acc)
    elif k == "fn":
        names_in(node[2], acc)
    return acc


def compare_text(text, tree, seed, failures, labels, origin=""):
    """Translate `text`; compare with the Fortran value of `tree` at 5 valuations."""
    try:
        ctext = translate(text)
    except NotRepeatable as e:
        failures.append(("krome/translation-not-repeatable", f"{origin}{text!r}: first call gives {e.args[0]!r}, a second call on the same reaction gives {e.args[1]!r}"))
        return "translated", e.args[0]
    except Exception as e:
        return "rejected", f"{type(e).__name__}"
    names = names_in(tree, set())
    tree_eval = tree
    alts = None
    for k in range(5):
        env = valuation(seed, names | set(VARS), k)
        nvals = valuation(seed + 17, set(SPECIES), k)
        env["nH"] = env.get("nH", 1.7)
        try:
            want = FT.evaluate(tree_eval, env, nvals)
        except KeyError:
            return "skipped", ctext  # a function / species outside my evaluator's vocabulary
        try:
            got = eval_c(ctext, env, nvals)
        except UndeclaredSymbol as e:
            m = re.search(r"'(IDX_\w+)'", str(e))
            if m:
                tok = [t for t in SPECIES if f"idx_{t})" in text.replace(" ", "")]
                multi = any(len(re.sub(r"[pm]+$", "", t)) > 1 for t in tok) and "IDX_E" not in m.group(1)
                key = "abundance-ref/electron" if m.group(1) in ("IDX_EI", "IDX_E") else "abundance-ref/multi-char-name" if multi else "abundance-ref/other"
                failures.append((f"krome/{key}", f"{origin}{text!r} -> {ctext!r}: {m.group(1)} is not the index macro of any species (expected IDX_<name><I..|M..>)"))
            else:
                mf = re.search(r"undeclared function '(\w+)'", str(e))
                if mf and mf.group(1).lower() in FT.FUNCS:
                    kind_ = "upper-case" if mf.group(1) != mf.group(1).lower() else "double-precision-name"
                    failures.append((f"krome/intrinsic-not-translated/{kind_}", f"{origin}{text!r} -> {ctext!r}: the Fortran intrinsic {mf.group(1)} is emitted verbatim, "
                                     f"which is not a C function ({e})"))
                else:
                    failures.append(("krome/identifier-changed", f"{origin}{text!r} -> {ctext!r}: {e}"))
            return "translated", ctext
        except CInvalidC as e:
            failures.append(("krome/invalid-c", f"{origin}{text!r} -> {ctext!r}: {e}"))
            return "translated", ctext
        if not R.close(float(got), float(want), 1e-12):
            # which known-wrong reading (if any) explains the value?
            la = FT.evaluate(left_assoc(strip_par_keep(tree)), env, nvals) if True else None
            sb = FT.evaluate(signed_base(tree), env, nvals)
            both = FT.evaluate(left_assoc(signed_base(tree)), env, nvals)
            if R.close(float(got), float(la), 1e-12):
                key = "krome/pow-chain-left-assoc"
            elif R.close(float(got), float(sb), 1e-12):
                key = "krome/signed-literal-power-base"
            elif R.close(float(got), float(both), 1e-12):
                key = "krome/pow-chain-left-assoc"
            else:
                key = "krome/value-changed"
                # third known-wrong reading (same root cause as signed-literal-power-base: the sign is lexed into the number):
                # 'x**Tgas+1.0d-10' - the signed literal that follows an identifier is glued to it, so it ends up inside the
                # power. Alternative oracle: the same text with a blank between identifier and sign translates correctly.
                spaced = re.sub(r"(?<=[\w)])(?<![\d.][dDeE])([+-])(?=[\d.])", r" \1 ", text)  # (not the sign of an exponent)
                if spaced != text:
                    try:
                        got2 = eval_c(translate(spaced), env, nvals)
                        if R.close(float(got2), float(want), 1e-12):
                            key = "krome/signed-literal-glued-to-identifier"
                    except Exception:
                        pass
            failures.append((key, f"{origin}{text!r} -> {ctext!r}: C value {got!r} but Fortran value {want!r} at valuation #{k}"))
            return "translated", ctext
    return "translated", ctext


def strip_par_keep(node):
    # explicit parentheses are semantic barriers: a**(b**c) written with parentheses must not be re-associated
    return node


def check_case(case, tier):
    N.reset_naunet_state()
    failures = []
    labels = [f"kind-{case['kind']}"]
    seed = case["seedvals"]
    if case["kind"] == "corpus-file":
        n = 0
        fmt = None
        for ln in Path(case["path"]).read_text().splitlines():
            if ln.startswith("@format:"):
                fmt = [c.strip().lower() for c in ln[len("@format:"):].split(",")]
                continue
            if not ln.strip() or ln.startswith(("#", "//", "@")) or fmt is None:
                continue
            cols = ln.split(",")
            if len(cols) < len(fmt):
                continue
            rate = cols[fmt.index("rate")].strip()
            rate_ft = rate.replace("Hnuclei", "nH")
            try:
                tree = FT.parse(rate_ft)
            except FT.FortranSyntaxError:
                continue
            n += 1
            compare_text(rate, _rename(tree), seed + n, failures, labels, origin=f"{Path(case['path']).name}: ")
            if len(failures) > 3:
                break
        return CaseResult(failures, True, labels, sample={"corpus": case["path"], "rates": n}, extra={"corpus_rate_expressions": n})
    if case["kind"] == "text":
        try:
            tree = FT.parse(case["text"])
            if FT.has_int_division(tree):
                return CaseResult(discarded=True)
            FT.evaluate(tree, valuation(seed, names_in(tree, set()) | set(VARS), 0), valuation(seed + 17, set(SPECIES), 0))
        except (FT.FortranSyntaxError, KeyError, IndexError):
            return CaseResult(discarded=True)  # not a Fortran expression in my reader's vocabulary
        st_, ctext = compare_text(case["text"], tree, seed, failures, labels)
        # these texts (the fixed list, the ident-sign-literal-power family) are translated correctly by the unchanged tree: a wrong value
        # here is never the recorded glued-literal finding, whatever the alternative oracle says about blanks
        failures[:] = [("krome/ident-sign-literal-power-misread" if k == "krome/signed-literal-glued-to-identifier" else k, m) for k, m in failures]
        if case.get("family"):
            labels.append("family-" + case["family"])
        feats = FT.features(tree)
        return CaseResult(failures, True, labels + sorted(feats), sample={"fortran": case["text"], "c": ctext})
    if case["kind"] == "var-definition":
        return check_var_definition(case, failures, labels)
    tree = case["tree"]
    if FT.has_int_division(tree):
        return CaseResult(discarded=True)
    text = FT.render(tree, sp=case["sp"])
    # harness self-check: my renderer and my parser agree on the meaning (otherwise the case is mine to fix)
    back = FT.parse(text)
    env0 = valuation(seed, set(VARS) | names_in(tree, set()), 0)
    nv0 = valuation(seed + 17, set(SPECIES), 0)
    a, b = FT.evaluate(tree, env0, nv0), FT.evaluate(back, env0, nv0)
    if not R.close(float(a), float(b), 1e-12):
        raise RuntimeError(f"harness: render/parse disagree on {text!r}: {a} vs {b}")
    if case["kind"] == "near-miss":
        miss = case["miss"]
        if miss == "neg-var":
            text2, tree2 = "-" + FT.render(["bin", "*", ["var", "Tgas"], tree], sp=case["sp"]), ["neg", ["bin", "*", ["var", "Tgas"], tree]]
        elif miss == "neg-var-pow":
            # Fortran: unary minus binds weaker than ** : -x**p is -(x**p), whatever x is (variable, call, parenthesis)
            base = [["var", "Tgas"], ["fn", "sqrt", ["var", "T32"]], ["par", ["bin", "/", ["var", "Tgas"], ["num", "1d3"]]]][seed % 3]
            expo = [["num", "2"], ["num", "0.5"], ["par", tree]][(seed // 3) % 3]
            tree2 = ["neg", ["bin", "**", base, expo]]
            text2 = "-" + FT.render(["bin", "**", base, expo], sp=case["sp"])
        elif miss == "d-plus":
            text2, tree2 = "1d+3*" + FT.render(tree, 2, "R", case["sp"]), ["bin", "*", ["num", "1e3"], tree]
        elif miss == "upper-D":
            text2, tree2 = "1.D-3*" + FT.render(tree, 2, "R", case["sp"]), ["bin", "*", ["num", "1e-3"], tree]
        elif miss == "comma-in-rate":
            # a two-argument intrinsic: KROME reads everything after the last column name as the rate, naunet splits the line at every
            # comma - whatever is left of the expression must be refused, never translated into something
            text2 = f"1.0d-9*max({text},1d2)"
            labels.append("near-miss-comma-in-rate")
            try:
                ctext = translate(text2)
            except Exception as e:
                return CaseResult([], True, labels + ["rejected"], sample={"fortran": text2, "outcome": "rejected"})
            failures.append(("krome/rate-cut-at-a-comma-and-accepted", f"{text2!r} was cut at the comma and translated to {ctext!r}"))
            return CaseResult(failures, True, labels + ["translated"], sample={"fortran": text2, "c": ctext})
        elif miss == "unbalanced":
            text2, tree2 = "(" + text, tree
        else:
            text2, tree2 = "c1d2*" + FT.render(tree, 2, "R", case["sp"]), ["bin", "*", ["var", "c1d2"], tree]
        labels.append(f"near-miss-{miss}")
        status, ctext = compare_text(text2, tree2, seed, failures, labels)
        labels.append(status)
        return CaseResult(failures, True, labels, sample={"fortran": text2, "outcome": status, "c": ctext})
    status, ctext = compare_text(text, tree, seed, failures, labels)
    if status == "rejected":
        # an expression derivable from the translator's own grammar must be accepted
        failures.append((f"krome/grammar-expression-rejected/{ctext}", f"{text!r} is derivable from the grammar but was rejected ({ctext})"))
    feats = FT.features(tree)
    nontrivial = bool(feats & {"pow-nonliteral", "same-level-chain", "d-exponent", "n(idx)", "pow-chain"})
    return CaseResult(failures, nontrivial, labels + sorted(feats), sample={"fortran": text, "c": ctext})


def _rename(tree):
    return tree


def check_var_definition(case, failures, labels):
    """`@var:vt_v = <expr>` + a rate `1.0d-10*vt_v`: k[0] of the rendered EvalRates against the Fortran value."""
    import tempfile, os
    from .. import ratecase as RC
    from ..ctext.lexer import CParseError
    from naunet.network import Network

    tree = case["tree"]
    if FT.has_int_division(tree):
        return CaseResult(discarded=True)
    text = FT.render(tree, sp=case["sp"])
    seed = case["seedvals"]
    feats = FT.features(tree)
    with N.Scratch() as d:
        path = os.path.join(d, "n.krome")
        with open(path, "w") as f:
            f.write(f"@var:vt_v = {text}\n@format:idx,R,R,P,P,rate\n1,H,H,H2,,1.0d-10*vt_v\n")
        try:
            net = Network(filelist=path, fileformats="krome")
            proj = RC.render_rates(net, d / "p", backends=(("cvode", "dense", "cpu"),))["dense"]
        except Exception as e:
            # refused at generation time: allowed
            return CaseResult([], False, labels + ["var-definition-refused"], sample={"var": text, "outcome": type(e).__name__})
        for k in range(3):
            T = 5.0 + 995.0 * math.modf((seed + 1) * 0.6180339887498949 + (k + 1) * 0.5698402909980532)[0]
            te = T * 8.617343e-5
            env = {"Tgas": T, "T32": T / 300.0, "invT": 1.0 / T, "Te": te, "invTe": 1.0 / te, "lnTe": math.log(te), "sqrTgas": math.sqrt(T)}
            try:
                want = 1.0e-10 * float(FT.evaluate(tree, env, {}))
            except (ZeroDivisionError, OverflowError, ValueError):
                return CaseResult(discarded=True)
            if want != want or abs(want) == float("inf"):
                return CaseResult(discarded=True)
            try:
                kk, _ = RC.eval_rates(proj, {"Tgas": T, "nH": 1.0e4})
                got = float(kk[0])
            except (CInvalidC, CParseError, UndeclaredSymbol) as e:
                decl = next((ln.strip() for ln in (proj.path / "src" / "naunet_rates.cpp").read_text().splitlines() if "vt_v =" in ln), "?")
                failures.append(("krome/var-definition-not-translated", f"@var:vt_v = {text} is emitted as `{decl}`, which is not the C expression of that Fortran text ({type(e).__name__}: {e})"))
                break
            if not (R.close(got, want, 1e-11) or (got != got and want != want)):
                # the same text as a rate expression: a defect of the translator itself (the recorded signed-literal findings) keeps its own key
                sub = []
                compare_text(text, tree, seed, sub, [])
                if sub:
                    failures.extend(sub)
                    break
                decl = next((ln.strip() for ln in (proj.path / "src" / "naunet_rates.cpp").read_text().splitlines() if "vt_v =" in ln), "?")
                failures.append(("krome/var-definition-not-translated", f"@var:vt_v = {text} is emitted as `{decl}`: k[0] = {got!r} but the Fortran value is {want!r} at Tgas = {T!r}"))
                break
    return CaseResult(failures, bool(feats & {"d-exponent", "pow-nonliteral", "pow-chain", "same-level-chain"}), labels + ["var-definition"] + sorted(feats),
                      sample={"var": text})


def post_phase(tier, seed):
    """Thorough tier: coverage-guided supplement (atheris) over the same oracle, empty starting corpus."""
    if tier != "thorough":
        return {}
    from ..fuzz import supplement

    return supplement(PROPERTY, seed, 150000)
