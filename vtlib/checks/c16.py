"""C16 — renormalisation restores the reference elemental abundances."""
from __future__ import annotations
from fractions import Fraction

from hypothesis import strategies as st

from ..gen import model as M
from ..runner import CaseResult
from .. import netcase as N
from ..ctext.extract import LayoutViolation
from ..ctext.lexer import CParseError, CInvalidC
from ..ctext.poly import Poly, PolyZeroDivision

PROPERTY = "C16"
LEVEL = "exploration"
TECHNIQUE = "property-based testing (Hypothesis): generated networks + positive abundance vectors + reference ratios; the rendered InitRenorm matrix and RenormAbundance factors are evaluated in exact rational arithmetic, the linear system is solved exactly, and element totals are recomputed from generator-side compositions"
RULE = (
    "Generated networks containing H, multi-element molecules, D isotopologues, ions, ice species, electrons and "
    "(optionally) grain species, with and without the atomic species of every element; positive abundance vectors "
    "(log-uniform 1e-20..1, as exact rationals) and reference ratios given as element ratios (opt 0) or derived from "
    "a second species vector (opt 1). The InitRenorm / RenormAbundance text of the cvode and odeint renderings is "
    "read into exact polynomials, evaluated with Fraction abundances, the element system is solved exactly and the "
    "factors applied. Oracle: for every listed element total/H-total equals the reference ratio exactly; the "
    "electron abundance is unchanged; no division by zero / NaN; both back-ends give the same matrix and factors; "
    "when the ratios already match and every element of every species is a listed element the result is the "
    "identity. A quarter of the networks is steered to an element without atomic species whose hydride shares its mass number with a species of listed elements. Non-trivial = >=2 elements coupled through a molecule and ratios that differ from the current ones."
)
ASSUMPTIONS = [
    "SetReferenceAbund is emulated from its documented semantics (ab_ref[i] = ref[i]/ref[H]); the compiled path is the thorough-tier cross-check",
    "compositions come from the generator",
]


def budget(tier):
    if tier == "quick":
        return dict(examples=30, shards=16, shrink_calls=40)
    return dict(examples=250, shards=16, shrink_calls=1500)


@st.composite
def _case(draw):
    elements = ["H"] + draw(st.lists(st.sampled_from(["D", "He", "C", "N", "O", "S", "Si", "Mg", "Fe"]), min_size=1, max_size=3, unique=True))
    pool = []
    seen = set()

    def add(sp):
        if M.identity(sp) not in seen:
            seen.add(M.identity(sp))
            pool.append(sp)

    complete = draw(st.sampled_from([True, True, True, False]))
    # steered class "mass-collision": an element X without atomic species (only in a hydride X H_n) next to a species of listed
    # elements only that has the same mass number (MgH+ / C2H, SiH / N2H, HD / H3 ...): anything keyed by mass number mixes them up
    collision = None
    if draw(st.integers(0, 3)) == 0:
        complete = False
        x = draw(st.sampled_from(elements[1:]))
        nh = draw(st.integers(1, 3))
        A = M.MASSNUM[x] + nh
        others = [e for e in elements[1:] if e != x and M.MASSNUM[e] <= A]
        partner = None
        if others:
            y = draw(st.sampled_from(others))
            k = draw(st.integers(1, A // M.MASSNUM[y]))
            m = A - k * M.MASSNUM[y]
            if m <= 12:
                partner = [[y, k]] + ([["H", m]] if m else [])
        elif A <= 12:
            partner = [["H", A]]
        if partner:
            collision = (x, M._mol([[x, 1], ["H", nh]], q=draw(st.sampled_from([0, 1]))), M._mol(partner, q=draw(st.sampled_from([0, 0, 1]))))
    for e in elements:
        if collision and e == collision[0]:
            continue
        if complete or e == "H" or (collision and e == collision[2]["t"][0][0]) or draw(st.booleans()):
            add(M._mol([[e, 1]]))
    if collision:
        add(collision[1])
        add(collision[2])
    for _ in range(draw(st.integers(2, 7))):
        add(draw(M.gas_molecule(elements, max_tokens=3, allow_label=True, charges=(0, 0, 1, -1, 2))))
    if draw(st.booleans()):
        add({"k": "e"})
    for _ in range(draw(st.integers(0, 2))):
        toks = draw(st.sampled_from(M.ICE_SAFE))
        if all(t[0] in elements for t in toks):
            add(M._mol(toks, s=True))
    grain = draw(st.integers(0, 4)) == 0
    if grain:
        add({"k": "grain", "g": 0, "q": 0})
        if draw(st.booleans()):
            add({"k": "grain", "g": 0, "q": -1})
    n = len(pool)
    reacs = [draw(M.reaction(n, types=[100], allow_pseudo=False)) for _ in range(draw(st.integers(1, 5)))]
    used = {i for rc in reacs for i in rc["r"] + rc["p"]}
    frac = st.builds(lambda m, e: Fraction(m, 1000) * Fraction(10) ** e, st.integers(1, 9999), st.integers(-20, -1))
    ab = [draw(frac) for _ in range(n)]
    opt = draw(st.sampled_from([0, 1, "match"]))
    ref = [draw(frac) for _ in range(n if opt == 1 else len(elements) + 1)]
    return {"pool": pool, "reactions": reacs, "required": [i for i in range(n) if i not in used], "eletter": draw(st.sampled_from(["e-", "E"])),
            "cooling": [], "heating": [], "ode_mod": [], "ab": [str(x) for x in ab], "opt": opt, "ref": [str(x) for x in ref], "complete": complete,
            "collision": bool(collision), "compile": draw(st.integers(0, 15)) == 0, "route": draw(st.sampled_from(["api", "api", "grow-from-file"]))}


def strategy(tier):
    return _case()


def fixed_cases(tier):
    m = M._mol
    pool = [m([["H", 1]]), m([["H", 2]]), m([["C", 1]]), m([["O", 1]]), m([["C", 1], ["O", 1]]), m([["H", 2], ["O", 1]]), {"k": "e"}, m([["H", 1]], q=1), m([["H", 1], ["C", 1], ["O", 1]], q=1), m([["C", 1], ["O", 1]], s=True)]
    rx = dict(r=[0, 0], p=[1], pseudo=[], type=100, a=1.0, b=0.0, c=0.0, tmin=-1.0, tmax=-1.0, idx=-1)
    base = dict(pool=pool, reactions=[rx], required=list(range(2, 10)), eletter="e-", cooling=[], heating=[], ode_mod=[], complete=True)
    ab = ["1", "1/2", "1/10000", "3/10000", "1/20000", "1/100000", "1/10000", "1/10000", "1/1000000", "1/50000"]
    return [dict(base, ab=ab, opt=0, ref=["1", "2/10000", "4/10000"]), dict(base, ab=ab, opt="match", ref=[]),
            dict(base, pool=pool + [{"k": "grain", "g": 0, "q": 0}], required=list(range(2, 11)), ab=ab + ["1/100000000000"], opt=0, ref=["1", "2/10000", "4/10000", "1/100000000000"])]


def build_grown(case, d):
    """Build from the first reaction, look at the network (species / elements), then extend it from a native-format file
    that brings in the remaining reactions and every other species (new elements included)."""
    from naunet.network import Network
    from ..gen import formats as F

    names = N.names_of(case)
    first = dict(case, reactions=case["reactions"][:1], required=[])
    net = Network(reactions=N.build_reactions(first))
    _ = [e.name for e in net.elements]
    _ = [s.alias for s in net.species]
    rest = list(case["reactions"][1:])
    for i in case.get("required", []):
        rest.append({"r": [i], "p": [i], "pseudo": [], "type": 100, "a": 0.0, "b": 0.0, "c": 0.0, "tmin": -1.0, "tmax": -1.0, "idx": -1})
    path = d / "grow.naunet"
    path.write_text("\n".join(F.encode_naunet(F.from_case_reaction(rc, N.names_for_reaction(case, rc)), padded=False) for rc in rest) + "\n")
    if rest:
        net.add_reaction_from_file(str(path), "naunet")
    return net


def solve_exact(A, b):
    n = len(b)
    M_ = [row[:] + [b[i]] for i, row in enumerate(A)]
    for c in range(n):
        p = next((r for r in range(c, n) if M_[r][c] != 0), None)
        if p is None:
            return None
        M_[c], M_[p] = M_[p], M_[c]
        for r in range(n):
            if r != c and M_[r][c] != 0:
                f = M_[r][c] / M_[c][c]
                M_[r] = [x - f * y for x, y in zip(M_[r], M_[c])]
    return [M_[i][n] / M_[i][i] for i in range(n)]


def compiled_renorm(case, proj, method, byslot, cur, new, ref, names_by_row, nel, failures):
    """Engine A: the rendered SetReferenceAbund + Renorm (real LU from the shim) against the exact result."""
    from ..cxx import build

    try:
        exe = build.build_renorm_driver(proj)
    except build.BuildError as e:
        failures.append((f"renorm/compiled/does-not-compile", f"{method}: {str(e)[-400:]}"))
        return
    ab = [0.0] * proj.neq
    for s, v in cur.items():
        ab[s] = float(v)
    refv = [float(ref[names_by_row[r]]) * 3.0 for r in range(nel)]  # opt 0: element abundances, any common scale
    text = "ab " + " ".join(float(v).hex() for v in ab) + "\nref " + " ".join(float(v).hex() for v in refv) + "\nopt 0\nrun\n"
    rc, out, err = build.run_driver(exe, text, proj.path)
    if rc != 0 or "AddressSanitizer" in err or "runtime error:" in err or "VT_BOUNDS" in err:
        kind = "asan" if "AddressSanitizer" in err else "ubsan" if "runtime error" in err else "bounds" if "VT_BOUNDS" in err else f"exit{rc}"
        failures.append((f"renorm/compiled/sanitizer/{kind}", f"{method}: {err[-400:]}"))
        return
    line = next((l for l in out.splitlines() if l.startswith("AB ")), None)
    line2 = next((l for l in out.splitlines() if l.startswith("AB2 ")), None)
    if line is None or line2 is None:
        raise RuntimeError(f"renorm driver gave no result: {out[-200:]} {err[-200:]}")
    got = [float.fromhex(x) for x in line.split()[1:]]
    got2 = [float.fromhex(x) for x in line2.split()[1:]]
    # renormalising the same vector again with the same object gives the same result (bit for bit: same arithmetic)
    bad = [s for s in byslot if not (got[s] == got2[s] or (got[s] != got[s] and got2[s] != got2[s]))]
    if bad:
        s_ = bad[0]
        failures.append((f"renorm/second-call-differs/{method}", f"{method}: Renorm of the same vector by the same object gives ab[{s_}] = {got2[s_]!r} the second time, {got[s_]!r} the first time"))
        return
    # the double-precision LU is only comparable with the exact solve when the element system is well scaled
    scale = max(abs(float(new[s]) / float(cur[s])) for s in byslot if cur[s] != 0)
    small = min(abs(float(new[s]) / float(cur[s])) for s in byslot if cur[s] != 0)
    if scale > 1e4 or small < 1e-4:
        return
    for s in byslot:
        w = float(new[s])
        if not (abs(got[s] - w) <= 1e-4 * max(abs(w), abs(float(cur[s])))):
            failures.append((f"renorm/compiled-differs-from-exact/{method}", f"{method}: compiled Renorm gives ab[{s}] = {got[s]!r}, exact evaluation of the text gives {w!r}"))
            break


def check_case(case, tier):
    N.reset_naunet_state()
    failures = []
    pool = case["pool"]
    labels = []
    has_grain = any(sp["k"] == "grain" for sp in pool)
    if has_grain:
        labels.append("grain-species")
    if any(sp.get("s") for sp in pool):
        labels.append("ice")
    labels.append("complete-elements" if case.get("complete") else "incomplete-elements")
    if case.get("collision"):
        labels.append("mass-collision-with-unlisted-element")
    labels.append(f"opt-{case['opt']}")
    ab = [Fraction(x) for x in case["ab"]]
    with N.Scratch() as d:
        try:
            if case.get("route") == "grow-from-file":
                net = build_grown(case, d)
                labels.append("grown-from-file-after-first-look")
            else:
                net = N.build_network(case)
            projs = N.render(net, d, backends=[("cvode", "dense", "cpu"), ("odeint", "rosenbrock4", "cpu")], templates="all" if case.get("compile") else "ode")
        except Exception as e:
            import traceback

            tb = traceback.extract_tb(e.__traceback__)
            where = next((f"{fr.filename.split('/')[-1]}:{fr.name}" for fr in reversed(tb) if "/naunet/" in fr.filename), "?")
            failures.append((f"renorm/render-raises/{type(e).__name__}@{where}", f"{type(e).__name__}: {e}"))
            return CaseResult(failures, True, labels, sample=N.abridge(case))
        results = {}
        for method, proj in projs.items():
            tag = "/grain" if has_grain else ""
            try:
                mat = proj.renorm_matrix()
                fac = proj.renorm_factors()
                ea = proj.element_abund_polys()
            except LayoutViolation as e:
                failures.append((f"renorm/layout{tag}", f"{method}: {e}"))
                continue
            except PolyZeroDivision:
                failures.append((f"renorm/division-by-zero{tag}", f"{method}: the generated renormalisation divides by a literal zero (0.0*ab/0.0 -> NaN at run time)"))
                continue
            except CParseError as e:
                # e.g. an empty factor `ab * ()`: let the compiler judge
                from ..cxx import build

                diags = build.syntax_check(proj.path, files=["naunet_renorm.cpp"]) if (proj.path / "include" / "naunet_renorm.h").exists() else None
                bad = [(l, r) for l, r in proj.raw_statements(("naunet_renorm", "RenormAbundance")) if r.strip().endswith("()")]
                if bad:
                    inc = "" if case.get("complete") else "/species-without-listed-element"
                    failures.append((f"renorm/invalid-c/empty-factor{inc}", f"{method}: {bad[0][0]} = {bad[0][1]}"))
                    continue
                raise
            slots = N.slot_of(case, proj)
            elem = proj.elem_table()  # element symbol -> row
            nel = proj.ints["NELEMENTS"]
            if "H" not in elem:
                failures.append(("renorm/no-H-element", f"{method}: IDX_ELEM_H missing although H is a species"))
                continue
            present = sorted(slots)
            byslot = {}
            for i in present:
                byslot.setdefault(slots[i], i)
            env = {f"ab[{slots[i]}]": ab[i] for i in present}
            comp = {s: M.composition(pool[i]) for s, i in byslot.items()}
            for s, i in byslot.items():
                if pool[i]["k"] == "grain":
                    comp[s] = {"GRAIN": 1}

            def totals(vec):
                t = {}
                for s, i in byslot.items():
                    for e, c in comp[s].items():
                        t[e] = t.get(e, Fraction(0)) + c * vec[s]
                return t

            cur = {s: ab[i] for s, i in byslot.items()}
            tot0 = totals(cur)
            H0 = tot0.get("H", Fraction(0))
            if H0 == 0:
                return CaseResult(discarded=True)
            # reference ratios
            names_by_row = {r: e for e, r in elem.items()}
            if case["opt"] == "match":
                ref = {e: tot0.get(e, Fraction(0)) / H0 for e in elem}
            elif case["opt"] == 0:
                vals = [Fraction(x) for x in case["ref"]]
                raw = {names_by_row[r]: vals[r % len(vals)] for r in range(nel)}
                ref = {e: raw[e] / raw["H"] for e in elem}
            else:
                vec = {s: Fraction(case["ref"][i % len(case["ref"])]) for s, i in byslot.items()}
                t2 = totals(vec)
                if t2.get("H", 0) == 0:
                    return CaseResult(discarded=True)
                ref = {e: t2.get(e, Fraction(0)) / t2["H"] for e in elem}
            # evaluate the rendered matrix exactly
            env["Hnuclei"] = H0
            try:
                A = [[Fraction(0)] * nel for _ in range(nel)]
                for (r, c), p in mat.items():
                    v = p.subs_const(env)
                    if not v.is_const():
                        raise CParseError(f"unresolved atoms in renorm matrix: {v.atoms()}")
                    A[r][c] = v.const_value()
                b = [ref[names_by_row[r]] for r in range(nel)]
                rsol = solve_exact(A, b)
                if rsol is None:
                    failures.append((f"renorm/singular-matrix{tag}", f"{method}: the element matrix is singular for positive abundances"))
                    continue
                env2 = dict(env)
                env2.update({f"rptr[{r}]": rsol[r] for r in range(nel)})
                new = {}
                for s in byslot:
                    if s not in fac:
                        failures.append((f"renorm/species-without-factor{tag}", f"{method}: RenormAbundance does not touch slot {s}"))
                        new[s] = cur[s]
                        continue
                    v = fac[s].subs_const(env2)
                    if not v.is_const():
                        raise CParseError(f"unresolved atoms in renorm factor: {v.atoms()}")
                    new[s] = v.const_value()
            except ZeroDivisionError:
                failures.append((f"renorm/division-by-zero{tag}", f"{method}: the generated expressions divide by zero (NaN/inf at run time) for a positive abundance vector"))
                continue
            tot1 = totals(new)
            H1 = tot1.get("H", Fraction(0))
            for e in elem:
                if e not in tot1 and e not in ref:
                    continue
                got = tot1.get(e, Fraction(0)) / H1 if H1 else None
                if got != ref[e]:
                    failures.append((f"renorm/ratio-not-restored{tag}", f"{method}: after renormalisation {e}/H = {float(got) if got is not None else None} but the reference is {float(ref[e])}"))
                    break
            for s, i in byslot.items():
                if pool[i]["k"] == "e" and new[s] != cur[s]:
                    failures.append(("renorm/electron-changed", f"{method}: electron abundance changed from {float(cur[s])} to {float(new[s])}"))
            covered = all(set(comp[s]) <= set(elem) for s in byslot)
            if case["opt"] == "match" and any(new[s] != cur[s] for s in byslot):
                s_bad = next(s for s in byslot if new[s] != cur[s])
                # (a species with an element that is no atomic species of the network - Mg in MgH+ without Mg - is only partly
                # covered by the element list: the property makes no exception for it, the key tells the two situations apart)
                failures.append((f"renorm/not-identity{tag}{'' if covered else '/species-with-unlisted-element'}", f"{method}: ratios already match but slot {s_bad} ({N.names_of(case)[byslot[s_bad]]}) is scaled by {float(new[s_bad] / cur[s_bad])}"))
            results[method] = (A, {s: new[s] for s in byslot})
            # the double-precision LU (partial pivoting, as SUNDIALS' dense solver) resolves an element whose total is t*H-total only
            # to about 1e-16/t when it is coupled to H through a molecule: the cross-check with the exact solve is meaningful for
            # t >= 1e-9 (error <= 1e-7, tolerance 1e-4)
            coupled = {e for s in byslot for e in comp[s] if len(comp[s]) >= 2}
            ill = any(tot0.get(e, Fraction(0)) < H0 * Fraction(1, 10 ** 9) for e in coupled)
            if case.get("compile") and not failures and ill:
                labels.append("compiled-cross-check-skipped/ill-scaled-element-system")
            if case.get("compile") and not failures and not ill:
                labels.append("compiled-cross-check")
                compiled_renorm(case, proj, method, byslot, cur, new, ref, names_by_row, nel, failures)
        if len(results) == 2:
            (a1, n1), (a2, n2) = results.values()
            if a1 != a2 or n1 != n2:
                failures.append(("renorm/backends-disagree", "cvode and odeint renderings give different renorm matrices / results"))
    elems_coupled = any(len(M.composition(sp)) >= 2 for sp in pool)
    nontrivial = elems_coupled and case["opt"] != "match"
    sample = dict(N.abridge(case), opt=case["opt"], ab=[str(float(Fraction(x))) for x in case["ab"][:6]])
    return CaseResult(failures, nontrivial, labels, sample=sample)
