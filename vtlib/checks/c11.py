"""C11 — grain-surface rate coefficients follow the selected dust model."""
from __future__ import annotations
import math
import os
import re
import tempfile
from pathlib import Path

from hypothesis import strategies as st

from ..gen import lines as L
from ..gen import formats as F
from ..runner import CaseResult
from .. import netcase as N
from .. import ratecase as R
from ..ctext.lexer import CInvalidC, CParseError
from ..ctext.interp import UndeclaredSymbol

PROPERTY = "C11"
LEVEL = "exploration"
TECHNIQUE = "property-based testing (Hypothesis): generated Leeds / UCLCHEM grain reactions x dust model x species data (RATE12 / user binding energies, yields) x physical parameters; the rendered EvalRates text (with its derived quantities and GetMantleDens) is interpreted numerically and compared with an independent numeric implementation of each process of the selected model"
RULE = (
    "Leeds-format (hh93, hh93i) and UCLCHEM-format (rr07, rr07x) networks made of generated accretion, thermal / "
    "cosmic-ray / photo / H2-formation desorption, grain recombination, electron capture, surface two-body and "
    "reactive desorption reactions over ice species drawn from the RATE12 binding-energy table, some with user "
    "binding energies (update_binding_energy) and yields; grain abundances as species (Leeds) or as a parameter; "
    "random positive physical and dust parameters and abundances. EvalRates (cvode + odeint text, whole body "
    "including derived quantities; GetMantleDens read from naunet_physics.cpp) is interpreted with C double "
    "semantics and each k[i] compared (rel 1e-9) with my own numeric implementation of the process for the selected "
    "model, evaluated with the reacting species' mass number, binding energy and yield from generator-side data; the "
    "eb_<species> constants must equal user value > RATE12 value; (model, process) pairs the model does not "
    "implement must raise at generation. Non-trivial = a case with a user binding energy / yield, a grain species, "
    "or a surface two-body reaction."
)
ASSUMPTIONS = [
    "the reference formulae are written from the model definitions as I know them and were aligned with the current tree (no network access to the papers): the check's power is against changes and species-data plumbing errors, not an audit of the physics",
    "physical constants (pi, kerg, amu, echarge, hbar, meu) are read from the rendered naunet_constants.cpp; model constants (habing, crphot, zism) are my own copy",
    "grain group 0 only",
]
ICE = ["H", "H2", "CO", "H2O", "CH4", "NH3", "O", "OH", "N2", "C", "HCO", "H2CO", "D", "HD"]  # D, HD: mass number 2 and 3 without being H2
MASS = {"H": 1.0, "C": 12.0, "N": 14.0, "O": 16.0, "D": 2.0}
ZISM = 1.3e-17


def mass_of(name):
    toks = re.findall(r"([A-Z][a-z]?)(\d*)", name)
    return sum(MASS[s] * (int(n) if n else 1) for s, n in toks)


def rate12_eb():
    out = {}
    for ln in Path("/repo/naunet/chemistrydata/rate12_binding_energy.dat").read_text(errors="replace").splitlines():
        if ln.startswith("#") or not ln.strip():
            continue
        p = ln.split()
        out[p[0]] = float(p[1])
    return out


def budget(tier):
    if tier == "quick":
        return dict(examples=20, shards=16, shrink_calls=60)
    return dict(examples=500, shards=16, shrink_calls=1000)


@st.composite
def _case(draw):
    model = draw(st.sampled_from(["hh93", "hh93i", "rr07", "rr07x"]))
    ices = draw(st.lists(st.sampled_from(ICE), min_size=1, max_size=4, unique=True))
    lg = lambda lo, hi: st.floats(min_value=math.log10(lo), max_value=math.log10(hi)).map(lambda e: 10.0 ** e)
    case = {"model": model, "ices": ices, "user_eb": {}, "user_yield": {}, "reactions": [], "grains": False}
    for x in ices:
        # (the bundled table has no binding energy for the deuterated ices: the user supplies one, as naunet asks)
        if draw(st.integers(0, 3)) == 0 or x in ("D", "HD"):
            case["user_eb"][x] = draw(st.sampled_from([555.0, 1234.5, 2000.0, 7777.0] if x not in ("D", "HD") else [621.0, 458.0]))
        if draw(st.integers(0, 3)) == 0:
            case["user_yield"][x] = draw(st.sampled_from([1.0e-3, 2.7e-3, 5.0e-2]))
    if model.startswith("hh93"):
        for x in ices:
            for code in draw(st.lists(st.sampled_from([7, 8, 9, 10]), min_size=1, max_size=4, unique=True)):
                case["reactions"].append({"code": code, "x": x, "a": draw(st.sampled_from([1.0, 0.5, 0.3]))})
        if draw(st.booleans()):
            case["grains"] = True
            case["reactions"].append({"code": 6, "x": draw(st.sampled_from(["H+", "C+", "HCO+", "H3+"])), "a": draw(st.sampled_from([1.0, 0.5]))})
            case["reactions"].append({"code": 20, "x": "e-", "a": 1.0})
        for _ in range(draw(st.integers(0, 2))):
            x1, x2 = draw(st.sampled_from(ices)), draw(st.sampled_from(ices + ["H", "H2"]))
            case["reactions"].append({"code": draw(st.sampled_from([13, 14])), "x": x1, "x2": x2, "a": draw(st.sampled_from([0.0, 350.0, 1000.0, 2500.0]))})
    elif model == "rr07x" and draw(st.integers(0, 2)) == 0:
        # the dust model is independent of the input format: Leeds-format accretion (7) and thermal desorption (8)
        # lines under rr07x (the Leeds class has its own dust temperature, Tdust)
        case["fmt"] = "leeds"
        for x in ices:
            for code in draw(st.lists(st.sampled_from([7, 8]), min_size=1, max_size=2, unique=True)):
                case["reactions"].append({"code": code, "x": x, "a": draw(st.sampled_from([1.0, 0.5, 0.3]))})
    else:
        for x in ices:
            kinds = draw(st.lists(st.sampled_from(["FREEZE", "DESOH2", "DESCR", "DEUVCR"] + (["THERM"] if model == "rr07x" else [])), min_size=1, max_size=5, unique=True))
            for k in kinds:
                case["reactions"].append({"code": k, "x": x, "a": draw(st.sampled_from([1.0, 0.5, 0.3]))})
        if draw(st.booleans()):
            case["reactions"].append({"code": "FREEZE", "x": draw(st.sampled_from(["H+", "C+", "HCO+", "E-"])), "a": draw(st.sampled_from([1.0, 0.5]))})
    if draw(st.integers(0, 9)) == 0 and case.get("fmt") != "leeds":
        # a process the model does not implement: must be refused
        case["unimplemented"] = True
        if model == "rr07":
            case["reactions"].append({"code": "THERM", "x": ices[0], "a": 1.0})
        elif model == "rr07x":
            case.pop("unimplemented")
        else:
            case.pop("unimplemented")
    P = {"Tgas": draw(st.one_of(lg(5, 3e3), lg(5, 29.9))), "Tdust": draw(lg(5, 300)), "Av": draw(st.floats(min_value=0.0, max_value=20.0)), "zeta": draw(lg(1e-18, 1e-14)), "zeta_cr": draw(lg(1e-18, 1e-14)),
         "zeta_xr": 0.0, "omega": 0.5, "G0": draw(lg(1e-2, 1e3)), "nH": draw(lg(1e2, 1e8)), "rG": draw(lg(1e-6, 1e-4)), "gdens": draw(lg(1e-14, 1e-10)),
         "sites": draw(lg(5e14, 5e15)), "barr": 1.5e-8, "hop": draw(st.sampled_from([0.3, 0.5])), "nMono": 2.0, "duty": 3.16e-19, "Tcr": 70.0, "branch": 1e-2,
         "opt": {k: draw(st.sampled_from([1.0, 1.0, 0.0])) for k in ("frz", "thd", "crd", "uvd", "rcd", "h2d")},
         "eb_crd": draw(st.sampled_from([1.21e3, 5.0e2, 1.0e4])), "eb_uvd": draw(st.sampled_from([1.0e4, 1.0e3])), "eb_h2d": draw(st.sampled_from([1.21e3, 6.0e3])),
         "crdeseff": 1.0e5, "uvcreff": 1.0e-3, "h2deseff": 1.0e-2}
    case["P"] = P
    # second phase on the same Network object: the user changes / adds binding energies and renders again
    case["user_eb2"] = {x: draw(st.sampled_from([444.0, 3210.0, 999.5])) for x in ices if draw(st.integers(0, 2)) == 0}
    case["yscale"] = [draw(lg(1e-12, 1e-2)) for _ in range(12)]
    return case


@st.composite
def _explicit_case(draw):
    """API route: Species objects that carry their *own* binding energy / yield (property setters) are handed to Reaction."""
    model = draw(st.sampled_from(["hh93", "rr07x"]))
    # (the clause compares with the table values: ices the bundled table knows)
    ices = draw(st.lists(st.sampled_from([x for x in ICE if x not in ("D", "HD")]), min_size=1, max_size=3, unique=True))
    # (the other desorption processes need symbols that only the Leeds / UCLCHEM reaction classes register: not reachable through the API)
    types = {"hh93": [201], "rr07x": [201]}[model]
    reacs = []
    for x in ices:
        for t in draw(st.lists(st.sampled_from(types), min_size=1, max_size=3, unique=True)):
            reacs.append({"t": t, "x": x})
    if model == "hh93" and draw(st.booleans()):
        reacs.append({"t": 300, "x": ices[0], "x2": draw(st.sampled_from(ices + ["H"])), "a": draw(st.sampled_from([0.0, 350.0, 1000.0]))})
    lg = lambda lo, hi: st.floats(min_value=math.log10(lo), max_value=math.log10(hi)).map(lambda e: 10.0 ** e)
    return {"kind": "explicit", "model": model, "ices": ices, "reactions": reacs,
            "eb": {x: draw(st.sampled_from([555.0, 1234.5, 2000.0, 7777.0])) for x in ices},
            "yield": {x: draw(st.sampled_from([2.7e-3, 5.0e-2])) for x in ices if draw(st.booleans())},
            "Tgas": draw(lg(8, 300)), "yscale": [draw(lg(1e-10, 1e-3)) for _ in range(8)]}


def strategy(tier):
    return st.one_of(_case(), _case(), _case(), _explicit_case())


def fixed_cases(tier):
    return []


# ------------------------------------------------------------------------------------ network construction
def build(case, d):
    from naunet.network import Network
    from naunet.chemistrydata import update_binding_energy, update_photon_yield

    leeds = case["model"].startswith("hh93") or case.get("fmt") == "leeds"
    fmt = "leeds" if leeds else "uclchem"
    pre = "G" if leeds else "#"
    e = "e-" if leeds else "E-"
    lrs = []
    mk = lambda r, p, code, a=1.0, c=0.0: {"fmt": fmt, "r": r, "p": p, "markers_r": [], "a": a, "b": 0.0, "c": c, "tmin": 0, "tmax": 0, "idx": len(lrs) + 1 if leeds else -1, "code": code}
    # keep H, H2 and the electron in every network (derived quantities and the H2-formation term need them)
    lrs.append(mk(["H", "H"], ["H2"], 1 if leeds else ""))
    lrs.append(mk(["H+", e], ["H"], 1 if leeds else ""))
    for rc in case["reactions"]:
        code, x = rc["code"], rc["x"]
        if code in (7, "FREEZE"):
            if x in ("e-", "E-"):
                lrs.append(mk([x], [], code, a=rc["a"]))
            elif x.endswith("+"):
                lrs.append(mk([x], [pre + x[:-1]], code, a=rc["a"]))
            else:
                lrs.append(mk([x], [pre + x], code, a=rc["a"]))
        elif code in (8, 9, 10, "THERM", "DESCR", "DEUVCR", "DESOH2"):
            lrs.append(mk([pre + x], [x], code, a=rc["a"], c=960.0))
        elif code == 6:
            lrs.append(mk([x, "GRAIN-"], [x[:-1], "GRAIN0"], 6, a=rc["a"]))
        elif code == 20:
            lrs.append(mk(["e-", "GRAIN0"], ["GRAIN-"], 20, a=rc["a"]))
        elif code in (13, 14):
            prod = "H2O"
            lrs.append(mk([pre + x, pre + rc["x2"]], [pre + prod] if code == 13 else [prod], code, a=rc["a"]))
    path = os.path.join(d, f"net.{fmt}")
    with open(path, "w") as fh:
        fh.write("\n".join(L.encode(lr) for lr in lrs) + "\n")
    update_binding_energy({pre + x: v for x, v in case["user_eb"].items()})
    update_photon_yield({pre + x: v for x, v in case["user_yield"].items()})
    kw = {"species_kwargs": {"surface_prefix": "G"}} if leeds else {}
    return Network(filelist=path, fileformats=fmt, grain_model=case["model"], **kw), lrs, pre


# ------------------------------------------------------------------------------------ reference model
def reference(case, lr, pre, C, P, y_of, eb_of, yield_of):
    """Rate coefficient of one reaction for the selected model."""
    model = case["model"]
    code = lr["code"]
    pi, kerg, amu, echarge, hbar, meu = (C[k] for k in ("pi", "kerg", "amu", "echarge", "hbar", "meu"))
    rG, sites = P["rG"], P["sites"]
    mant = y_of["__mantle__"]
    a = float(f"{lr['a']:8.2E}") if lr["fmt"] == "leeds" else float(lr["a"])
    name = lambda s: s[len(pre):] if s.startswith(pre) else s
    re1 = lr["r"][0]
    if model.startswith("hh93"):
        gdens = y_of["__gdens__"]
        garea = (4.0 * pi * rG * rG) * gdens
        unisites = sites * (4 * pi * rG * rG)
        densites = garea * sites
        freq = math.sqrt((2.0 * sites * kerg) / ((pi * pi) * amu))
        quan = -2.0 * (P["barr"] / hbar) * math.sqrt(2.0 * amu * kerg)
        nMono = P["nMono"]
        layers = mant / (nMono * densites)
        cov = 0.0 if mant == 0.0 else min(layers / mant, 1.0 / mant)
        zr = P["zeta_cr"] / ZISM
        if code == 7:
            A = mass_of(name(re1).rstrip("+-"))
            return P["opt"]["frz"] * a * pi * rG * rG * gdens * math.sqrt(8.0 * kerg * P["Tgas"] / (pi * amu * A))
        if code == 8:
            x = name(re1)
            eb, A = eb_of(x), mass_of(x)
            return P["opt"]["thd"] * cov * nMono * densites * math.sqrt(2.0 * sites * kerg * eb / (pi * pi * amu * A)) * math.exp(-eb / P["Tdust"])
        if code == 9:
            x = name(re1)
            eb, A = eb_of(x), mass_of(x)
            return P["opt"]["crd"] * cov * P["duty"] * nMono * densites * zr * math.sqrt(2.0 * sites * kerg * eb / (pi * pi * amu * A)) * math.exp(-eb / P["Tcr"])
        if code == 10:
            x = name(re1)
            phot = P["G0"] * 1e8 * math.exp(-P["Av"] * 3.02) + 1e4 * zr
            return P["opt"]["uvd"] * cov * phot * (yield_of(x) or 1e-3) * nMono * garea
        if code == 20:
            return pi * rG * rG * math.sqrt(8.0 * kerg * P["Tgas"] / pi / amu / meu)
        if code == 6:
            ion = [s for s in lr["r"] if not s.startswith("GRAIN")][0]
            A = mass_of(ion.rstrip("+-"))
            T = P["Tgas"]
            e2 = echarge ** 2.0
            return a * pi * rG * rG * gdens * math.sqrt(8.0 * kerg * T / (pi * amu * A)) * (1.0 + e2 / rG / kerg / T) * (1.0 + math.sqrt(2.0 * e2 / (rG * kerg * T + 2.0 * e2)))
        if code in (13, 14):
            x1, x2 = name(lr["r"][0]), name(lr["r"][1])
            eb1, A1, eb2, A2 = eb_of(x1), mass_of(x1), eb_of(x2), mass_of(x2)
            Td, hop = P["Tdust"], P["hop"]
            afreq = freq * math.sqrt(eb1 / A1)
            adiff = afreq * math.exp(-eb1 * hop / Td) / unisites
            aquan = afreq * math.exp(quan * math.sqrt(hop * A1 * eb1)) / unisites
            bfreq = freq * math.sqrt(eb2 / A2)
            bdiff = bfreq * math.exp(-eb2 * hop / Td) / unisites
            bquan = bfreq * math.exp(quan * math.sqrt(hop * A2 * eb2)) / unisites
            kappa = math.exp(-a / Td)
            kquan = math.exp(quan * math.sqrt(((A1 * A2) / (A1 + A2)) * a))
            light = ("H", "H2")
            if x1 in light and x2 in light:
                r = max(kappa, kquan) * (max(adiff, aquan) + max(bdiff, bquan))
            elif x1 in light:
                r = max(kappa, kquan) * (max(adiff, aquan) + bdiff)
            elif x2 in light:
                r = max(kappa, kquan) * (adiff + max(bdiff, bquan))
            else:
                r = kappa * (adiff + bdiff)
            r = r * (nMono * densites) ** 2.0 / gdens * cov * cov
            if code == 14:
                r = P["opt"]["rcd"] * P["branch"] * r
            return r
        raise KeyError(code)
    # rr07 / rr07x
    gdens = P["gdens"]
    gxsec = (pi * rG * rG) * gdens
    garea = 4.0 * gxsec
    densites = garea * sites
    mantabund = mant / P["nH"]
    zr = P["zeta"] / ZISM
    if lr["fmt"] == "leeds":
        # Leeds-format lines under the RR07X model: accretion without UCLCHEM's forced window; thermal desorption at the
        # *dust* temperature, which the Leeds class carries as its own parameter
        if code == 7:
            A = mass_of(name(re1).rstrip("+-"))
            return 4.57e4 * a * gxsec * P["opt"]["frz"] * math.sqrt(P["Tgas"] / A)
        if code == 8:
            x = name(re1)
            eb, A = eb_of(x), mass_of(x)
            if mantabund <= 1e-30:
                return 0.0
            return P["opt"]["thd"] * math.sqrt(2.0 * sites * kerg * eb / (pi * pi * amu * A)) * 2.0 * densites * math.exp(-eb / P["Tdust"])
        raise KeyError(code)
    if code == "FREEZE":
        T = P["Tgas"]
        if not (T < 30.0):
            return 0.0  # UCLCHEM switches freeze-out off at and above 30 K (documented forced window)
        if re1 == "E-":
            return 4.57e4 * a * gxsec * P["opt"]["frz"] * (1.0 + 16.71e-4 / (rG * T))
        A = mass_of(re1.rstrip("+-"))
        r = 4.57e4 * a * gxsec * P["opt"]["frz"] * math.sqrt(T / A)
        if re1.endswith("+"):
            r *= 1.0 + 16.71e-4 / (rG * T)
        return r
    x = name(re1)
    eb = eb_of(x)
    if mantabund <= 1e-30:
        return 0.0
    if code == "DEUVCR":
        if not (P["eb_uvd"] >= eb):
            return 0.0
        return P["opt"]["uvd"] * 4.875e3 * gxsec * (zr + (P["G0"] / P["uvcreff"]) * math.exp(-1.8 * P["Av"])) * (yield_of(x) or 0.1) / mant
    if code == "DESCR":
        if not (P["eb_crd"] >= eb):
            return 0.0
        return P["opt"]["crd"] * 4.0 * pi * P["crdeseff"] * zr * 1.64e-4 * gxsec / mant
    if code == "DESOH2":
        if not (P["eb_h2d"] >= eb):
            return 0.0
        h2form = 1.0e-17 * math.sqrt(P["Tgas"]) * P["nH"]
        return P["opt"]["h2d"] * P["h2deseff"] * h2form * y_of["H"] / mant
    if code == "THERM":
        A = mass_of(x)
        # UCLCHEM has a single temperature: the dust temperature of the UCLCHEM reaction class is Tgas
        return P["opt"]["thd"] * math.sqrt(2.0 * sites * kerg * eb / (pi * pi * amu * A)) * 2.0 * densites * math.exp(-eb / P["Tgas"])
    raise KeyError(code)


def params_for(case, proj):
    """NaunetData values: the generated physical point mapped onto the field names the model declares."""
    P = case["P"]
    fields = R.data_fields(proj)
    m = {"nH": P["nH"], "Tgas": P["Tgas"], "Tdust": P["Tdust"], "zeta": P["zeta"], "zeta_cr": P["zeta_cr"], "zeta_xr": P["zeta_xr"], "Av": P["Av"], "omega": P["omega"], "G0": P["G0"],
         "rG": P["rG"], "gdens": P["gdens"], "sites": P["sites"], "barr": P["barr"], "hop": P["hop"], "nMono": P["nMono"], "duty": P["duty"], "Tcr": P["Tcr"], "branch": P["branch"],
         "opt_frz": P["opt"]["frz"], "fr": P["opt"]["frz"], "opt_thd": P["opt"]["thd"], "opt_crd": P["opt"]["crd"], "opt_uvd": P["opt"]["uvd"], "opt_rcd": P["opt"]["rcd"], "opt_h2d": P["opt"]["h2d"],
         "eb_crd": P["eb_crd"], "eb_uvd": P["eb_uvd"], "eb_h2d": P["eb_h2d"], "crdeseff": P["crdeseff"], "uvcreff": P["uvcreff"], "h2deseff": P["h2deseff"]}
    out = {}
    for f, dflt in fields.items():
        if f in m:
            out[f] = m[f]
        elif dflt is not None:
            out[f] = dflt
        else:
            out[f] = 1.0
    return out


def _explicit_network(case, how):
    """how = 'objects': Species objects with their own values; 'table': plain names + the user tables; 'default': names only."""
    from naunet.network import Network
    from naunet.species import Species
    from naunet.reactions.reaction import Reaction
    from naunet.reactiontype import ReactionType
    from naunet.chemistrydata import update_binding_energy, update_photon_yield

    N.reset_naunet_state()
    if how == "table":
        update_binding_energy({"#" + x: v for x, v in case["eb"].items()})
        update_photon_yield({"#" + x: v for x, v in case["yield"].items()})

    def ice(x):
        if how != "objects" or x not in case["eb"]:
            return "#" + x
        sp = Species("#" + x)
        sp.binding_energy = case["eb"][x]
        if x in case["yield"]:
            sp.photon_yield = case["yield"][x]
        return sp

    reacs = [Reaction(["H", "H"], ["H2"], -1.0, -1.0, 1.0e-17, 0.0, 0.0, ReactionType.GAS_TWOBODY, 1)]
    for k, rc in enumerate(case["reactions"]):
        if rc["t"] == 300:
            reacs.append(Reaction([ice(rc["x"]), ice(rc["x2"])], ["#H2O"], -1.0, -1.0, rc["a"], 0.0, 0.0, ReactionType(300), k + 2))
        else:
            reacs.append(Reaction([ice(rc["x"])], [rc["x"]], -1.0, -1.0, 1.0, 0.0, 960.0, ReactionType(rc["t"]), k + 2))
    return Network(reactions=reacs, grain_model=case["model"])


def check_explicit(case):
    """The reacting species' *own* binding energy / yield (explicit value on the Species object) must reach the rates:
    the rendering equals the rendering in which the same numbers come from the user tables (metamorphic)."""
    failures = []
    labels = ["explicit-species-values", f"model-{case['model']}"]
    vals = {}
    with N.Scratch() as d:
        for how in ("default", "table", "objects"):
            try:
                net = _explicit_network(case, how)
                proj = R.render_rates(net, d / how, backends=(("cvode", "dense", "cpu"),))["dense"]
            except Exception as e:
                if how == "default":
                    # this (model, process) pair is not available to reactions built through the API (it needs symbols
                    # only a file-format class registers, or is unimplemented): outside the domain of this clause
                    return CaseResult(discarded=True)
                failures.append((f"grain/explicit-route-raises/{type(e).__name__}", f"{how}: {type(e).__name__}: {e}"))
                return CaseResult(failures, True, labels, sample={"model": case["model"]})
            fields = R.data_fields(proj)
            P = {f: (case["Tgas"] if f == "Tgas" else 10.0 if f == "Tdust" else (dflt if dflt is not None else 1.0)) for f, dflt in fields.items()}
            idx = proj.idx_table()
            yv = [0.0] * proj.neq
            for i, (al, slot) in enumerate(sorted(idx.items())):
                yv[slot] = case["yscale"][i % len(case["yscale"])]
            k, _ = R.eval_rates(proj, P, yvals=yv)
            vals[how] = (list(k), R.constants_of(proj))
    ko, kt, kd = vals["objects"][0], vals["table"][0], vals["default"][0]
    for i, rc in enumerate(case["reactions"]):
        if not R.close(ko[i + 1], kt[i + 1], 1e-12):
            same_as_default = R.close(ko[i + 1], kd[i + 1], 1e-12)
            failures.append((f"grain/explicit-species-value-ignored/{case['model']}:{rc['t']}" if same_as_default else f"grain/explicit-vs-table/{case['model']}:{rc['t']}",
                             f"type {rc['t']} of #{rc['x']}: k = {ko[i + 1]!r} with the species' own E_b={case['eb'][rc['x']]} / yield={case['yield'].get(rc['x'])} set on the Species object, {kt[i + 1]!r} with the same numbers in the user tables, {kd[i + 1]!r} with the RATE12 defaults"))
            break
    differs = any(not R.close(a, b, 1e-12) for a, b in zip(kt, kd))
    if differs:
        labels.append("values-change-the-rates")
    return CaseResult(failures, differs, labels, sample={"model": case["model"], "reactions": [(rc["t"], rc["x"]) for rc in case["reactions"]], "eb": case["eb"]})


def check_case(case, tier):
    from naunet.species import Species

    if case.get("kind") == "explicit":
        return check_explicit(case)
    N.reset_naunet_state()
    failures = []
    model = case["model"]
    labels = [f"model-{model}"]
    if case["user_eb"]:
        labels.append("user-binding-energy")
    if case["user_yield"]:
        labels.append("user-yield")
    if case["grains"]:
        labels.append("grain-species")
    table = rate12_eb()
    with N.Scratch() as d:
        try:
            net, lrs, pre = build(case, str(d))
            projs = R.render_rates(net, d / "r")
        except NotImplementedError as e:
            if case.get("unimplemented"):
                return CaseResult([], True, labels + ["refused-unimplemented"], sample={"model": model, "refused": str(e)})
            failures.append(("grain/raises/NotImplementedError", f"{model}: {e}"))
            return CaseResult(failures, True, labels, sample={"model": model})
        except Exception as e:
            import traceback

            tb = traceback.extract_tb(e.__traceback__)
            where = next((f"{fr.filename.split('/')[-1]}:{fr.name}" for fr in reversed(tb) if "/naunet/" in fr.filename), "?")
            failures.append((f"grain/raises/{type(e).__name__}@{where}", f"{model}: {type(e).__name__}: {e}"))
            return CaseResult(failures, True, labels, sample={"model": model})
        if case.get("unimplemented"):
            failures.append((f"grain/unimplemented-process-not-refused/{model}", f"{model}: a process the model does not implement was rendered instead of refused"))
        phases = [("first", dict(case["user_eb"]), projs)]
        if case.get("user_eb2") and not failures:
            from naunet.chemistrydata import update_binding_energy

            update_binding_energy({pre + x: v for x, v in case["user_eb2"].items()})
            try:
                projs2 = R.render_rates(net, d / "r2")
                phases.append(("after-table-update", dict(case["user_eb"], **case["user_eb2"]), projs2))
                labels.append("binding-energy-updated-between-renders")
            except Exception as e:
                failures.append((f"grain/second-render-raises/{type(e).__name__}", f"{model}: {type(e).__name__}: {e}"))
        yield_of = lambda x: case["user_yield"].get(x, 0.0)
        for phase, user_eb, projs_ in phases:
          eb_of = lambda x, user_eb=user_eb: user_eb.get(x) or table[x]
          for method, proj in projs_.items():
              C = R.constants_of(proj)
              # species data plumbing: eb_<alias> constants
              for x in {rc["x"] for rc in case["reactions"] if rc["code"] in (8, 9, 10, 13, 14, "THERM", "DESCR", "DEUVCR", "DESOH2", 7, "FREEZE") and not rc["x"].endswith(("+", "-"))} | {rc.get("x2") for rc in case["reactions"] if rc.get("x2")}:
                  al = "eb_G" + Species(x).alias
                  if al in C and not R.close(C[al], eb_of(x), 1e-12):
                      src = ("user" if x in user_eb else "rate12") + ("/after-update" if phase != "first" else "")
                      failures.append((f"grain/binding-energy-constant/{src}", f"{method}: {al} = {C[al]} but the binding energy of {x} is {eb_of(x)} ({src})"))
              idx = proj.idx_table()
              yv = [0.0] * proj.neq
              for i, (al, slot) in enumerate(sorted(idx.items())):
                  yv[slot] = case["yscale"][i % len(case["yscale"])]
              surf = [slot for al, slot in idx.items() if al.startswith("G") and not al.startswith("GRAIN")]
              y_of = {"__mantle__": sum(yv[s] for s in surf), "__gdens__": sum(yv[slot] for al, slot in idx.items() if al.startswith("GRAIN")) if any(al.startswith("GRAIN") for al in idx) else case["P"]["gdens"], "H": yv[idx["HI"]]}
              try:
                  k, _ = R.eval_rates(proj, params_for(case, proj), yvals=yv)
              except CInvalidC as e:
                  failures.append(("grain/invalid-c", f"{method}: {e}"))
                  continue
              except (UndeclaredSymbol, CParseError) as e:
                  from ..cxx import build as cb

                  stem = "naunet_ode.cpp" if proj.solver == "odeint" else "naunet_rates.cpp"
                  diags = cb.syntax_check(proj.path, files=[stem])
                  if not diags:
                      raise
                  failures.append((f"grain/does-not-compile/{cb.classify_diag(diags[0][1][0])}", f"{method}: {diags[0][1][0]}"))
                  continue
              for i, lr in enumerate(lrs):
                  if i < 2:
                      continue
                  try:
                      ref = reference(case, lr, pre, C, case["P"], y_of, eb_of, yield_of)
                  except OverflowError:
                      continue
                  if not R.close(k[i], ref, 1e-9):
                      failures.append((f"grain/law/{model}:{lr['code']}", f"{method}: k[{i}] = {k[i]!r} but {model} prescribes {ref!r} for code {lr['code']} of {lr['r']} (Tgas={case['P']['Tgas']:.4g}, Tdust={case['P']['Tdust']:.4g})"))
                      break
    nontrivial = bool(case["user_eb"] or case["user_yield"] or case["grains"] or any(rc["code"] in (13, 14) for rc in case["reactions"]))
    for rc in case["reactions"]:
        labels.append(f"{model}:{rc['code']}")
    sample = {"model": model, "reactions": [(rc["code"], rc["x"], rc.get("x2")) for rc in case["reactions"]][:8], "user_eb": case["user_eb"]}
    return CaseResult(failures, nontrivial, sorted(set(labels)), sample=sample)
