"""C13 — rate and ODE modifiers change exactly what the user targeted."""
from __future__ import annotations
import os

from hypothesis import strategies as st

from ..gen import model as M
from ..runner import CaseResult
from .. import netcase as N
from .. import ratecase as R
from ..ctext.lexer import parse_expression, CParseError
from ..ctext.poly import Poly, ast_to_poly, const_int
from ..ctext.cfile import walk_assignments

PROPERTY = "C13"
LEVEL = "exploration"
TECHNIQUE = "property-based testing (Hypothesis), metamorphic oracle: rendering with vs. without modifiers must differ in exactly the targeted k[i] statements and by exactly +factor*prod(y[deps]) in the named ydot polynomials; plus round trip through export -> naunet_config.toml -> `naunet render` in a fresh process"
RULE = (
    "Generated networks with unique / shared / partly missing / entirely missing reaction indices, rate modifiers "
    "keyed by present, absent and shared indices (values with signs and arithmetic), ODE modifiers with 0-3 "
    "dependency species. Metamorphic oracle: render (cvode dense + odeint) with and without the modifiers; every "
    "k[i] statement of a reaction whose (re-)index is a key must be 'k[i] = <modifier expression>' (compared as "
    "parsed expressions) and every other rate statement must be unchanged; ydot[s] of a named species changes by "
    "exactly sum(factor*prod y[deps]) as polynomials and no other ydot changes; macros, data, constants, physics "
    "and renorm files are byte-identical. Configuration route: Network.export() writes the tables into "
    "naunet_config.toml, `naunet render -f` in a fresh process re-renders, and the rate / fex / jac sources must "
    "equal the API rendering. Non-trivial = a key shared by >=2 reactions, an unindexed (re-indexed) network, a "
    ">=2-dependency term, or a signed multi-term factor."
)
ASSUMPTIONS = [
    "modifier expressions only use symbols the templates declare (nH, Tgas, zeta, Av, omega)",
    "the Jacobian of modifier terms is C02's subject; here the jac file only takes part in the config-route comparison",
]
RATE_VALUES = [0.0, 1.0e-10, "0.0", "1.0e-9 * nH", "-2.5e-10", "zeta * 2.0 - 1.0e-17", "3.0e-10 * pow(Tgas/300.0, 0.5)", "1.0e-17 * sqrt(Tgas) * nH"]
ODE_FACTORS = ["-2.0 * nH", "0.5*zeta", "1.0e-17", "-3.0", "-zeta + 0.5 * nH", "-zeta - nH / 4.0", "nH * 2.0 - 1.0", "Tgas/300.0"]


def budget(tier):
    if tier == "quick":
        return dict(examples=14, shards=16, shrink_calls=60)
    return dict(examples=200, shards=16, shrink_calls=800)


@st.composite
def _case(draw):
    case = draw(M.network(max_species=8, max_reactions=10, thermal=False, modifiers=False))
    if not case["reactions"]:
        case["reactions"] = [draw(M.reaction(len(case["pool"])))]
    reacs = case["reactions"]
    for rc in reacs:
        rc["pseudo"] = []
        rc["type"] = 100
    mode = draw(st.sampled_from(["none", "unique", "unique", "shared", "some"]))
    base = draw(st.integers(0, 60))
    for i, rc in enumerate(reacs):
        rc["idx"] = -1 if mode == "none" else base + i
    if mode == "shared" and len(reacs) >= 2:
        for i in range(1, len(reacs)):
            if draw(st.booleans()):
                reacs[i]["idx"] = reacs[draw(st.integers(0, i - 1))]["idx"]
    if mode == "some":
        for rc in reacs:
            if draw(st.booleans()):
                rc["idx"] = -1
        if all(rc["idx"] == -1 for rc in reacs):
            reacs[0]["idx"] = base
    case["idx_mode"] = mode
    present_idx = sorted({rc["idx"] for rc in reacs if rc["idx"] >= 0}) if mode != "none" else list(range(len(reacs)))
    keys = set()
    for _ in range(draw(st.integers(0, 3))):
        keys.add(draw(st.sampled_from(present_idx)) if present_idx and draw(st.integers(0, 3)) > 0 else draw(st.integers(200, 300)))
    if mode == "some":
        # an index no reaction carries, but which happens to be the list position of an unindexed reaction
        free = [i for i, rc in enumerate(reacs) if rc["idx"] == -1 and i not in present_idx]
        if free and draw(st.booleans()):
            keys.add(draw(st.sampled_from(free)))
    case["rate_mod"] = {str(k): draw(st.sampled_from(RATE_VALUES)) for k in sorted(keys)}
    used = sorted({i for rc in reacs for i in rc["r"] + rc["p"]} | set(case["required"]))
    case["ode_mod"] = []
    for _ in range(draw(st.integers(0, 3))):
        nd = draw(st.sampled_from([0, 1, 1, 2, 2, 3]))
        deps = [draw(st.sampled_from(used)) for _ in range(nd)]
        case["ode_mod"].append({"target": draw(st.sampled_from(used)), "factor": draw(st.sampled_from(ODE_FACTORS)), "deps": deps, "ealt": draw(st.integers(0, 2)) == 0})
    case["config_route"] = draw(st.integers(0, 2)) == 0
    # the other way into the configuration file: `naunet init --rate-modifier=... --ode-modifier=...` (one option per term)
    case["init_route"] = draw(st.integers(0, 3)) == 0
    return case


def strategy(tier):
    return _case()


def fixed_cases(tier):
    m = M._mol
    pool = [m([["H", 1]]), m([["H", 2]]), m([["C", 1]]), m([["C", 1], ["H", 1]]), m([["C", 2]])]
    rx = lambda r, p, idx: dict(r=r, p=p, pseudo=[], type=100, a=2.4e-10, b=0.5, c=10.0, tmin=10.0, tmax=300.0, idx=idx)
    base = dict(pool=pool, required=[], eletter="e-", cooling=[], heating=[], route="api")
    return [
        dict(base, reactions=[rx([2, 3], [0, 4], 4894), rx([0, 4], [2, 3], 6599), rx([2, 3], [0, 4], 4894), rx([0, 0], [1], 7)], rate_mod={"4894": "1.0e-9 * nH", "999": "0.0"},
             ode_mod=[{"target": 1, "factor": "-zeta + 0.5 * nH", "deps": [0]}, {"target": 0, "factor": "-2.0 * nH", "deps": [0, 0]}], idx_mode="shared", config_route=True),
        dict(base, reactions=[rx([2, 3], [0, 4], -1), rx([0, 4], [2, 3], -1), rx([0, 0], [1], -1)], rate_mod={"1": "0.0"}, ode_mod=[{"target": 1, "factor": "1.0e-17", "deps": []}], idx_mode="none", config_route=True),
    ]


def rate_stmts(proj):
    """position -> statement AST (assign or if) for k[...] in EvalRates."""
    _, stmts = proj.rates_fn("EvalRates")
    out = {}
    for s in stmts:
        if s is None:
            continue
        tgt = list(walk_assignments([s]))
        ks = [a for a in tgt if a[1][0] == "index" and a[1][1] == ("id", "k")]
        if ks:
            i = const_int(ks[0][1][2], proj.ints)
            if i in out:
                out[i] = ("multi", out[i], s)
            else:
                out[i] = s
    return out


def render_config_route(payload):
    """Fresh process: `naunet render -f` inside an exported project directory; returns file contents."""
    import os
    from cleo.application import Application
    from cleo.testers.command_tester import CommandTester
    from naunet.console.commands import RenderCommand

    cwd = os.getcwd()
    os.chdir(payload["dir"])
    try:
        app = Application()
        app.add(RenderCommand())
        t = CommandTester(app.find("render"))
        rc = t.execute("--force")
        files = {}
        for rel in payload["files"]:
            p = os.path.join(payload["dir"], rel)
            files[rel] = open(p).read() if os.path.exists(p) else None
        return {"status": rc, "files": files, "err": t.io.fetch_error()[-500:]}
    finally:
        os.chdir(cwd)


def check_case(case, tier):
    N.reset_naunet_state()
    failures = []
    labels = [f"idx-{case.get('idx_mode')}"]
    plain = dict(case, rate_mod={}, ode_mod=[])
    reacs = case["reactions"]
    unindexed = all(rc["idx"] == -1 for rc in reacs)
    eff_idx = [i if unindexed else rc["idx"] for i, rc in enumerate(reacs)]
    keys = {int(k): v for k, v in case["rate_mod"].items()}
    shared = any(sum(1 for e in eff_idx if e == k) >= 2 for k in keys)
    if shared:
        labels.append("shared-key")
    if any(k not in eff_idx for k in keys):
        labels.append("absent-key")
    if unindexed:
        labels.append("reindexed")
    if any(len(m["deps"]) >= 2 for m in case["ode_mod"]):
        labels.append("multi-dep")
    if any(len(m["deps"]) == 0 for m in case["ode_mod"]):
        labels.append("zero-dep")
    multi_term = any(m["factor"].lstrip().startswith("-") and any(c in m["factor"].lstrip()[1:] for c in "+-") for m in case["ode_mod"])
    if multi_term:
        labels.append("signed-multi-term-factor")
    backends = [("cvode", "dense", "cpu"), ("odeint", "rosenbrock4", "cpu")]
    with N.Scratch() as d:
        try:
            net0 = N.build_network(plain)
            p0 = R.render_rates(net0, d / "plain", backends)
            N.reset_naunet_state()
            net1 = N.build_network(case)
            p1 = R.render_rates(net1, d / "mod", backends)
        except Exception as e:
            import traceback

            tb = traceback.extract_tb(e.__traceback__)
            where = next((f"{fr.filename.split('/')[-1]}:{fr.name}" for fr in reversed(tb) if "/naunet/" in fr.filename), "?")
            failures.append((f"modifier/render-raises/{type(e).__name__}@{where}", f"{type(e).__name__}: {e}"))
            return CaseResult(failures, True, labels, sample=N.abridge(case))
        for method in p0:
            a, b = p0[method], p1[method]
            try:
                ra, rb = rate_stmts(a), rate_stmts(b)
            except CParseError as e:
                failures.append(("modifier/rates-unparsable", f"{method}: {e}"))
                continue
            for i in range(len(reacs)):
                if eff_idx[i] in keys:
                    want = ("assign", ("index", ("id", "k"), ("num", str(i), True)), "=", parse_expression(str(keys[eff_idx[i]])))
                    if rb.get(i) != want:
                        kind = "shared-key" if sum(1 for e in eff_idx if e == eff_idx[i]) >= 2 else "reindexed" if unindexed else "single"
                        failures.append((f"modifier/rate-not-replaced/{kind}", f"{method}: reaction #{i} carries index {eff_idx[i]} (modifier {keys[eff_idx[i]]!r}) but its statement is {_show(rb.get(i))}"))
                elif rb.get(i) != ra.get(i):
                    failures.append(("modifier/untargeted-rate-changed", f"{method}: reaction #{i} (index {eff_idx[i]}) is not targeted but its rate statement changed to {_show(rb.get(i))}"))
            # ODE terms
            fa, fb = a.fex_polys(), b.fex_polys()
            slots = N.slot_of(case, b)
            want = {s: Poly() for s in range(b.neq)}
            for m in case["ode_mod"]:
                term = ast_to_poly(parse_expression(m["factor"]))
                for i in m["deps"]:
                    term = term * Poly.atom(f"y[{slots[i]}]")
                want[slots[m["target"]]] = want[slots[m["target"]]] + term
            for s in range(b.neq):
                diff = fb.get(s, Poly()) - fa.get(s, Poly())
                if diff != want[s]:
                    kind = "targeted" if not want[s].is_zero() else "untargeted"
                    failures.append((f"modifier/ode-term/{kind}", f"{method}: ydot[{s}] changed by {diff} but the modifiers ask for {want[s]}"))
            # nothing else changes
            for rel in ("include/naunet_macros.h", "include/naunet_data.h", "src/naunet_constants.cpp", "src/naunet_physics.cpp"):
                ta, tb_ = (a.path / rel).read_text(), (b.path / rel).read_text()
                if rel.endswith("naunet_macros.h"):
                    # NNZ legitimately follows the Jacobian entries that ODE modifiers add
                    import re as _re

                    ta, tb_ = _re.sub(r"#define NNZ \d+", "", ta), _re.sub(r"#define NNZ \d+", "", tb_)
                if ta != tb_:
                    failures.append(("modifier/unrelated-file-changed", f"{method}: {rel} differs between the renderings with and without modifiers"))
        # configuration route
        if case.get("config_route") and not failures:
            import tomlkit
            from ..proc.call import call

            labels.append("config-route")
            try:
                N.reset_naunet_state()
                net2 = N.build_network(case)
                net2.export("vtexp", solver="cvode", method="dense", device="cpu", prefix=str(d), overwrite=True)
            except Exception as e:
                import traceback

                tb = traceback.extract_tb(e.__traceback__)
                where = next((f"{fr.filename.split('/')[-1]}:{fr.name}" for fr in reversed(tb) if "/naunet/" in fr.filename), "?")
                what = "rate-modifier" if case["rate_mod"] else "ode-modifier" if case["ode_mod"] else "plain"
                failures.append((f"modifier/export-raises/{what}/{type(e).__name__}@{where}", f"{type(e).__name__}: {e}"))
                return CaseResult(failures, True, labels, sample=N.abridge(case))
            cfg = tomlkit.parse((d / "vtexp" / "naunet_config.toml").read_text())
            got_r = {int(k): str(v) for k, v in cfg["chemistry"]["rate_modifier"].items()}
            if got_r != {k: str(v) for k, v in keys.items()}:
                failures.append(("modifier/config-rate-table", f"naunet_config.toml rate_modifier {got_r} expected {keys}"))
            want_o = N.ode_modifier_dict(case)
            got_o = {k: {"factors": [str(x) for x in v["factors"]], "reactants": [[str(y) for y in x] for x in v["reactants"]]} for k, v in cfg["chemistry"]["ode_modifier"].items()}
            if got_o != want_o:
                failures.append(("modifier/config-ode-table", f"naunet_config.toml ode_modifier {got_o} expected {want_o}"))
            # the API rendering of the same network (export itself renders it): keep its meaning, then re-render
            from ..ctext.extract import Project

            exp = Project(d / "vtexp", "cvode", "dense", "cpu")
            direct = (exp.fex_polys(), exp.jac_layout()["entries"], rate_stmts(exp))
            res = call("vtlib.checks.c13", "render_config_route", {"dir": str(d / "vtexp"), "files": []})
            if res["status"] != 0:
                failures.append(("modifier/config-render-failed", f"`naunet render -f` status {res['status']}: {res['err']}"))
            else:
                re_ = Project(d / "vtexp", "cvode", "dense", "cpu")
                again = (re_.fex_polys(), re_.jac_layout()["entries"], rate_stmts(re_))
                for what, x, y in zip(("ydot", "jacobian", "rate statements"), direct, again):
                    if x != y:
                        failures.append((f"modifier/config-render-differs/{what.split()[0]}", f"{what} re-rendered from naunet_config.toml differ from the API rendering of the same network"))
                        break
        if case.get("init_route") and not failures and (case["rate_mod"] or case["ode_mod"]):
            init_route(case, d, keys, failures, labels)
    nontrivial = shared or unindexed or any(len(m["deps"]) >= 2 for m in case["ode_mod"]) or multi_term
    sample = dict(N.abridge(case), rate_mod=case["rate_mod"], indices=eff_idx)
    return CaseResult(failures, nontrivial, labels, sample=sample)


def init_route(case, d, keys, failures, labels):
    """`naunet init` with the modifiers on the command line (fresh process): the written tables equal the request."""
    import tomlkit
    from ..proc.call import call
    from . import c08, c20

    sep = set(",;:'")
    if any(sep & set(str(v)) for v in keys.values()) or any(sep & set(m["factor"]) for m in case["ode_mod"]):
        return  # a value containing the option's own separators cannot be written on the command line (C20's domain note)
    N.reset_naunet_state()
    net = N.build_network(case)
    path = d / "init_net.naunet"
    net.write(str(path), "naunet")
    names = N.names_of(case)
    terms = [[names[m["target"]], m["factor"], [names[i] for i in m["deps"]]] for m in case["ode_mod"]]
    dflt = c08.CFG["default"]
    desc = {"fmt": "naunet", "text": path.read_text(), "name": "vtproj", "description": "", "surface": "#", "bulk": "@", "grain_symbol": "GRAIN",
            "elements": list(dflt["elements"]), "pseudo": list(dflt["pseudo"]), "replacement": {}, "allowed": [], "required": [names[i] for i in sorted(set(case.get("required", [])))],
            "binding": {}, "yields": {}, "grain_model": "", "cooling": [], "shielding": {}, "rate_mod": {str(k): str(v) for k, v in keys.items()}, "ode_mod_terms": terms,
            "ode_split": "one-per-term", "spacing": {"list": "", "table": "", "kv": ""}, "backend": ["cvode", "dense", "cpu"]}
    labels.append("init-route")
    res = call("vtlib.checks.c20", "run_init", {"desc": desc, "options": c20.option_string(desc)})
    if "raised" in res:
        failures.append((f"modifier/init-raises/{res['raised'].split(':')[0]}", f"naunet init with the modifiers on the command line: {res['raised']}"))
        return
    if res["config"] is None:
        failures.append(("modifier/init-wrote-no-config", f"status {res['status']}: {res['err']}"))
        return
    cfg = tomlkit.parse(res["config"])
    got_r = {str(k): str(v) for k, v in cfg["chemistry"]["rate_modifier"].items()}
    if got_r != desc["rate_mod"]:
        failures.append(("modifier/init-rate-table", f"naunet init wrote rate_modifier {got_r} but {desc['rate_mod']} was requested"))
    want_o = {}
    for t, f, deps in terms:
        ent = want_o.setdefault(t, {"factors": [], "reactants": []})
        ent["factors"].append(f)
        ent["reactants"].append(list(deps))
    got_o = {str(k): {"factors": [str(x) for x in v["factors"]], "reactants": [[str(y) for y in x] for x in v["reactants"]]} for k, v in cfg["chemistry"]["ode_modifier"].items()}
    if got_o != want_o:
        failures.append(("modifier/init-ode-table", f"naunet init wrote ode_modifier {got_o} but {want_o} was requested"))


def _show(s):
    from ..ctext.lexer import ast_to_str

    if s is None:
        return "missing"
    if s[0] == "assign":
        return f"{ast_to_str(s[1])} = {ast_to_str(s[3])}"
    if s[0] == "if":
        return f"if ({ast_to_str(s[1])}) ..."
    return str(s)[:120]
