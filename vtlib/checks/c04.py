"""C04 — balanced networks give element- and charge-conserving generated dynamics."""
from __future__ import annotations

from hypothesis import strategies as st

from ..gen import model as M
from ..runner import CaseResult
from .. import netcase as N
from ..ctext.extract import LayoutViolation
from ..ctext.poly import Poly
from . import c01

PROPERTY = "C04"
LEVEL = "exploration"
TECHNIQUE = 'property-based testing (Hypothesis) over balanced-by-construction networks; oracle = zero polynomial of composition- and charge-weighted ydot sums, GetElementAbund vs generator-side compositions'
RULE = (
    "Balanced-by-construction networks (reactant atoms and charge are partitioned into the products; ions, electrons "
    "spelled e- and E in the same network, o/p/m labels, D isotopologues, freeze-out/desorption pairs and surface "
    "reactions over ice species) delivered through the API or a native-format file and rendered for all four "
    "back-ends. With generator-side compositions c_e(s) and charges q(s), sum_s c_e(s)*ydot_s and sum_s q(s)*ydot_s "
    "must be the zero polynomial (exact: all abundances and all rate values), and the rendered GetElementAbund "
    "must equal sum_s c_e(s)*y[s] for every IDX_ELEM_e. Non-trivial = >=2 elements and (an ion+electron reaction or "
    "an ice species); distinct = sha1 of the abstract case."
)
ASSUMPTIONS = [
    "compositions and charges come from the generator, never from Species.element_count",
    "species slots located through IDX_<alias> (C09's subject)",
]


def budget(tier):
    if tier == "quick":
        return dict(examples=30, shards=16)
    return dict(examples=600, shards=16, shrink_calls=2000)


@st.composite
def _case(draw, nmax):
    case = draw(M.balanced_network(max_reactions=nmax))
    # a quarter of the networks is written the UCLCHEM / old-UMIST way: upper-case symbols (HE, CL, SI, E-) with a renaming table,
    # the electron symbol listed among the elements or among the pseudo-elements
    if draw(st.integers(0, 3)) == 0 and not any(sp.get("x") or sp.get("sg") for sp in case["pool"]):
        case["upper"] = draw(st.sampled_from(["elements", "elements", "pseudo"]))
        case["route"] = "api"
    return case


def strategy(tier):
    return _case(10 if tier == "quick" else 30)


def fixed_cases(tier):
    m = M._mol
    pool = [m([["H", 1]]), m([["H", 2]]), m([["H", 1]], q=1), {"k": "e"}, m([["H", 1]], q=-1), m([["C", 1], ["O", 1]]),
            m([["C", 1], ["O", 1]], s=True), m([["H", 3]], q=1), m([["H", 2]], q=1), m([["H", 2]], l="o")]
    rx = lambda r, p, **kw: dict(dict(r=r, p=p, pseudo=[], type=100, a=1.0, b=0.0, c=0.0, tmin=-1.0, tmax=-1.0, idx=-1), **kw)
    base = dict(pool=pool, required=[], eletter="e-", cooling=[], heating=[], ode_mod=[], route="api")
    return [
        dict(base, reactions=[rx([1, 0], [0, 0, 0]), rx([0, 0, 0], [1, 0]), rx([0, 3], [2, 3, 3]), rx([4, 0], [1, 3], ealt=True)]),
        dict(base, reactions=[rx([5], [6], type=100), rx([6], [5]), rx([1, 8], [7, 0]), rx([9, 2], [1, 2])], eletter="E"),
    ]


def check_case(case, tier):
    N.reset_naunet_state()
    failures = []
    labels = N.network_features(case) + [f"route-{case.get('route', 'api')}"] + ([f"upper-case-lists/electron-in-{case['upper']}"] if case.get("upper") else [])
    elements = sorted({e for sp in case["pool"] for e in M.composition(sp)})
    # sanity of the generator: every reaction is balanced (otherwise the case is outside the domain)
    for rc in case["reactions"]:
        for e in elements:
            if sum(M.composition(case["pool"][i]).get(e, 0) for i in rc["r"]) != sum(M.composition(case["pool"][i]).get(e, 0) for i in rc["p"]):
                return CaseResult(discarded=True)
        if sum(M.charge(case["pool"][i]) for i in rc["r"]) != sum(M.charge(case["pool"][i]) for i in rc["p"]):
            return CaseResult(discarded=True)
    if any(rc.get("ealt") for rc in case["reactions"]):
        labels.append("mixed-electron-spelling")
    if any(sp["k"] == "mol" and len({t[0] for t in sp["t"]}) < len(sp["t"]) for sp in case["pool"]):
        labels.append("element-named-twice-in-a-formula")
    with N.Scratch() as d:
        try:
            net = c01.build(case)
            projs = N.render(net, d)
        except Exception as e:
            import traceback

            tb = traceback.extract_tb(e.__traceback__)
            where = next((f"{fr.filename.split('/')[-1]}:{fr.name}" for fr in reversed(tb) if "/naunet/" in fr.filename), "?")
            failures.append((f"render-raises/{type(e).__name__}@{where}", f"{type(e).__name__}: {e}"))
            projs = {}
        present = sorted({i for rc in case["reactions"] for i in rc["r"] + rc["p"]} | set(case.get("required", [])))
        for method, proj in projs.items():
            try:
                slots = N.slot_of(case, proj)
                got = proj.fex_polys()
            except LayoutViolation as e:
                failures.append(("conservation/layout", f"{method}: {e}"))
                continue
            missing = [N.names_of(case)[i] for i in present if i not in slots]
            if missing:
                failures.append(("conservation/species-without-slot", f"{method}: no IDX_ macro for {missing}"))
                continue
            # one ODE variable per chemical species irrespective of spelling
            nident = len({M.identity(case["pool"][i]) for i in present})
            if proj.nspec != nident:
                failures.append(("conservation/slot-count", f"{method}: NSPECIES={proj.nspec} but {nident} distinct species"))
                continue
            byslot = {}
            for i in present:
                byslot.setdefault(slots[i], i)
            # the sums below are over the derivatives the code computes: every species needs one (the solvers hand Fex a work
            # vector with arbitrary previous content, an unassigned slot is not a zero derivative)
            unassigned = [N.names_of(case)[i] for s, i in byslot.items() if s not in got]
            if unassigned:
                failures.append(("conservation/derivative-not-assigned", f"{method}: no statement assigns ydot of {unassigned}"))
                continue
            for e in elements:
                tot = Poly()
                for s, i in byslot.items():
                    c = M.composition(case["pool"][i]).get(e, 0)
                    if c and s in got:
                        tot = tot + got[s].scale(c)
                if not tot.is_zero():
                    failures.append(("conservation/element", f"{method}: d/dt of total {e} = {tot}"))
            tot = Poly()
            for s, i in byslot.items():
                q = M.charge(case["pool"][i])
                if q and s in got:
                    tot = tot + got[s].scale(q)
            if not tot.is_zero():
                failures.append(("conservation/charge", f"{method}: d/dt of net charge = {tot}"))
            # GetElementAbund
            try:
                ea = proj.element_abund_polys()
            except LayoutViolation as e:
                failures.append(("elemabund/layout", f"{method}: {e}"))
                continue
            for ename, eslot in proj.elem_table().items():
                if ename not in elements:
                    continue
                want = Poly()
                for s, i in byslot.items():
                    c = M.composition(case["pool"][i]).get(ename, 0)
                    if c:
                        want = want + Poly.atom(f"y[{s}]").scale(c)
                if eslot not in ea:
                    failures.append(("elemabund/missing", f"{method}: GetElementAbund has no branch for IDX_ELEM_{ename}"))
                elif ea[eslot] != want:
                    failures.append(("elemabund/wrong", f"{method}: GetElementAbund({ename}) = {ea[eslot]} expected {want}"))
            # every element whose neutral atom is a species must have an IDX_ELEM macro
            for i in present:
                sp = case["pool"][i]
                if sp["k"] == "mol" and not sp.get("s") and sp.get("q", 0) == 0 and not sp.get("l") and len(sp["t"]) == 1 and sp["t"][0][1] == 1:
                    if sp["t"][0][0] not in proj.elem_table():
                        failures.append(("elemabund/no-elem-macro", f"{method}: atom {sp['t'][0][0]} is a species but IDX_ELEM_{sp['t'][0][0]} is missing"))
    has_ion = any(any(case["pool"][i]["k"] == "e" for i in rc["r"] + rc["p"]) for rc in case["reactions"])
    has_ice = any(case["pool"][i].get("s") for rc in case["reactions"] for i in rc["r"] + rc["p"])
    nontrivial = len(elements) >= 2 and (has_ion or has_ice)
    return CaseResult(failures, nontrivial, labels, sample=N.abridge(case))
