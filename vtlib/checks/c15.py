"""C15 — duplicate detection reports exactly the repeated reactions."""
from __future__ import annotations

from hypothesis import strategies as st

from ..runner import CaseResult
from .. import netcase as N

PROPERTY = "C15"
LEVEL = "exploration"
TECHNIQUE = 'property-based testing (Hypothesis): planted equivalence classes; oracle = O(n^2) pairwise reference + removal round trip'
RULE = (
    "Reaction lists of 2-30 reactions with planted equivalence classes: permuted reactants/products, repeated "
    "species, members differing only in temperature window or only in type, runs of 3-5 repeats, several "
    "interleaved classes; modes None/'brief'/'minimal'/'short'. Oracle: O(n^2) pairwise reference over name "
    "multisets (+window, +type as the mode documents): dupidx = indices equivalent to an earlier index, dupes the "
    "same reactions, first = first member of each class with >=2 members in order of first appearance; then "
    "remove_reaction(dupidx) leaves exactly one member per class and a second report is empty (also through a "
    "second call on the same Network object). Non-trivial = a class of size >=3, or >=2 classes with duplicates, "
    "or a window-only/type-only variant, or a permuted member."
)
ASSUMPTIONS = [
    "UNKNOWN-typed reactions are not mixed with typed ones (equality with a wildcard is not transitive, so 'class' is undefined there)",
    "string modes ('minimal', 'short'): one spelling convention per list, as the docstring of find_duplicate_reaction requires; the object-based modes (None, 'brief') also get lists that spell the electron both ways (e- / E), as merged databases do",
]
MODES = [None, "brief", "minimal", "short"]
NAMES = ["H", "H2", "H+", "H-", "e-", "C", "C+", "CH", "O", "OH", "H2O", "CO", "He", "He+", "H2+", "H3+", "Si", "S", "SiO", "oH2", "#H", "#CO", "#H2O", "#H2", "D"]
TYPES = [100, 101, 102, 110, 120]
WINDOWS = [(-1.0, -1.0), (10.0, 300.0), (300.0, 1000.0), (10.0, 41000.0), (10.04, 300.0)]


def budget(tier):
    if tier == "quick":
        return dict(examples=150, shards=16)
    return dict(examples=4000, shards=16, shrink_calls=4000)


@st.composite
def _case(draw):
    pool = draw(st.lists(st.sampled_from(NAMES), min_size=2, max_size=6, unique=True))
    nclass = draw(st.integers(1, 5))
    members = []
    for _ in range(nclass):
        r = [draw(st.sampled_from(pool)) for _ in range(draw(st.integers(1, 3)))]
        p = [draw(st.sampled_from(pool)) for _ in range(draw(st.integers(0, 4)))]
        w = draw(st.sampled_from(WINDOWS))
        t = draw(st.sampled_from(TYPES))
        size = draw(st.sampled_from([1, 1, 2, 2, 3, 4, 5]))
        for _k in range(size):
            rr = list(draw(st.permutations(r)))
            pp = list(draw(st.permutations(p)))
            ww, tt = w, t
            v = draw(st.integers(0, 7))
            if v == 0:
                ww = draw(st.sampled_from(WINDOWS))  # window-only variant
            elif v == 1:
                tt = draw(st.sampled_from(TYPES))  # type-only variant
            members.append({"r": rr, "p": pp, "tmin": ww[0], "tmax": ww[1], "type": tt})
    if len(pool) >= 2 and draw(st.integers(0, 2)) == 0:
        # same species on each side, same number of them, but another one is the repeated one: different reactions
        a, b = pool[0], pool[1]
        w = draw(st.sampled_from(WINDOWS))
        t = draw(st.sampled_from(TYPES))
        side = draw(st.sampled_from(["r", "p"]))
        other = [draw(st.sampled_from(pool))]
        for trip in ([a, a, b], [a, b, b]):
            for _k in range(draw(st.integers(1, 2))):
                tr = list(draw(st.permutations(trip)))
                members.append({"r": tr if side == "r" else other, "p": other if side == "r" else tr, "tmin": w[0], "tmax": w[1], "type": t})
    order = draw(st.permutations(list(range(len(members)))))
    reactions = [members[i] for i in order][:30]
    mode = draw(st.sampled_from(MODES))
    if mode in (None, "brief") and draw(st.booleans()):
        # merged databases spell the electron differently (KIDA/UMIST 'e-', KROME 'E'): the same species, so the object-based
        # modes must see through it (the string modes document one spelling convention per list)
        for rc in reactions:
            if draw(st.booleans()):
                rc["r"] = ["E" if x == "e-" else x for x in rc["r"]]
                rc["p"] = ["E" if x == "e-" else x for x in rc["p"]]
    return {"reactions": reactions, "mode": mode, "requery": draw(st.booleans())}


def strategy(tier):
    return _case()


def fixed_cases(tier):
    a = {"r": ["H2", "H2+"], "p": ["H3+", "H"], "tmin": 10.0, "tmax": 300.0, "type": 100}
    b = {"r": ["H2+", "H2"], "p": ["H", "H3+"], "tmin": 10.0, "tmax": 300.0, "type": 100}
    c = dict(a, tmin=300.0, tmax=1000.0)
    d = {"r": ["C", "C+"], "p": ["C+", "C"], "tmin": -1.0, "tmax": -1.0, "type": 100}
    e = {"r": ["C+", "C"], "p": ["C", "C+"], "tmin": -1.0, "tmax": -1.0, "type": 100}
    return [{"reactions": [a, d, b, c, e, a, b], "mode": m, "requery": True} for m in MODES]


def key_of(rc, mode):
    canon = lambda x: "e-" if x == "E" else x  # one electron, two spellings
    r = tuple(sorted(canon(x) for x in rc["r"]))
    p = tuple(sorted(canon(x) for x in rc["p"]))
    if mode in ("brief", "minimal"):
        return (r, p)
    if mode == "short":
        return (r, p, f"{rc['tmin']:7.1f}", f"{rc['tmax']:7.1f}", rc["type"])
    return (r, p, rc["tmin"], rc["tmax"], rc["type"])


def reference(reactions, mode):
    dupidx, first = [], []
    n = len(reactions)
    keys = [key_of(rc, mode) for rc in reactions]
    for i in range(n):
        if any(keys[j] == keys[i] for j in range(i)):
            dupidx.append(i)
    for i in range(n):
        if not any(keys[j] == keys[i] for j in range(i)) and any(keys[j] == keys[i] for j in range(i + 1, n)):
            first.append(i)
    return dupidx, first


def check_case(case, tier):
    from naunet.network import Network
    from naunet.reactions.reaction import Reaction
    from naunet.reactiontype import ReactionType

    N.reset_naunet_state()
    mode = case["mode"]
    rs = case["reactions"]
    objs = [Reaction(rc["r"], rc["p"], temp_min=rc["tmin"], temp_max=rc["tmax"], alpha=1.0 + i, reaction_type=ReactionType(rc["type"])) for i, rc in enumerate(rs)]
    net = Network(reactions=objs)
    failures = []
    labels = [f"mode-{mode}"]
    want_dup, want_first = reference(rs, mode)
    try:
        dupes, dupidx, first = net.find_duplicate_reaction(mode)
    except Exception as e:
        failures.append((f"dup/raises/{type(e).__name__}", f"{type(e).__name__}: {e}"))
        return CaseResult(failures, True, labels, sample={"mode": mode, "n": len(rs)})
    tag = f"mode={mode}"
    if list(dupidx) != want_dup:
        failures.append((f"dup/indices/{mode}", f"{tag}: dupidx={list(dupidx)} expected {want_dup} for {[_fmt(r) for r in rs]}"))
    if [id(x) for x in dupes] != [id(objs[i]) for i in dupidx]:
        failures.append((f"dup/dupes-not-matching-indices/{mode}", f"{tag}: dupes are not reactions[dupidx]"))
    if [id(x) for x in first] != [id(objs[i]) for i in want_first]:
        got_first = [objs.index(x) if x in objs else None for x in first]
        failures.append((f"dup/first-members/{mode}", f"{tag}: first={got_first} expected {want_first}"))
    # removal round trip
    if not failures:
        net.remove_reaction(list(dupidx))
        left = [objs.index(x) for x in net.reaction_list]
        want_left = [i for i in range(len(rs)) if i not in want_dup]
        if left != want_left:
            failures.append((f"dup/removal/{mode}", f"{tag}: after removal reactions {left} expected {want_left}"))
        else:
            d2, i2, f2 = net.find_duplicate_reaction(mode)
            if list(i2) or list(d2) or list(f2):
                failures.append((f"dup/second-report-not-empty/{mode}", f"{tag}: second report dupidx={list(i2)} first={len(f2)}"))
            if case.get("requery"):
                # other modes on the same object after the removal agree with the reference on the survivors
                mixed = any("E" in rc["r"] + rc["p"] for rc in rs) and any("e-" in rc["r"] + rc["p"] for rc in rs)
                for m2 in MODES:
                    if mixed and m2 in ("minimal", "short"):
                        continue  # string modes: one spelling convention per list (documented)
                    wd, wf = reference([rs[i] for i in want_left], m2)
                    d3, i3, f3 = net.find_duplicate_reaction(m2)
                    if list(i3) != wd:
                        failures.append((f"dup/requery/{m2}", f"after removal, mode={m2}: dupidx={list(i3)} expected {wd}"))
    sizes = {}
    for rc in rs:
        sizes[key_of(rc, mode)] = sizes.get(key_of(rc, mode), 0) + 1
    big = any(v >= 3 for v in sizes.values())
    multi = sum(1 for v in sizes.values() if v >= 2) >= 2
    brief = {}
    for rc in rs:
        brief.setdefault(key_of(rc, "brief"), set()).add(key_of(rc, None))
    variant = any(len(v) >= 2 for v in brief.values())
    perm = any(key_of(a, None) == key_of(b, None) and (a["r"] != b["r"] or a["p"] != b["p"]) for i, a in enumerate(rs) for b in rs[:i])
    for lb, f in (("class>=3", big), ("multi-class", multi), ("window-or-type-variant", variant), ("permuted-member", perm)):
        if f:
            labels.append(lb)
    return CaseResult(failures, big or multi or variant or perm, labels, sample={"mode": mode, "reactions": [_fmt(r) for r in rs][:8], "dupidx": want_dup})


def _fmt(rc):
    return f"{' + '.join(rc['r'])} -> {' + '.join(rc['p'])} [{rc['tmin']},{rc['tmax']}] t{rc['type']}"
