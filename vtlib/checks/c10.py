"""C10 — generated sources are self-contained: every symbol used is declared (exactly once) before use."""
from __future__ import annotations
import os
import tempfile

from hypothesis import strategies as st

from ..gen import formats as F
from ..gen import lines as L
from ..runner import CaseResult
from .. import netcase as N
from ..cxx import build

PROPERTY = "C10"
LEVEL = "exploration"
TECHNIQUE = "property-based testing (Hypothesis) over option combinations; oracle = clang++ -fsyntax-only -Wmacro-redefined on every rendered translation unit against a minimal SUNDIALS/Boost API shim (the compiler is the judge of 'declared once, before use')"
RULE = (
    "Generated small networks for every (input format or mixture) x grain model {none, hh93, hh93i, rr07, rr07x} x "
    "{dense, sparse, rosenbrock4} x shielding tables {none, H2:L96Table, CO:V09Table|VB88Table, N2:L13Table} x "
    "cooling on/off x rate/ODE modifiers on/off, each containing the reaction types that make the combination "
    "meaningful (freeze-out / desorption / recombination / surface reactions when a grain model is selected). The "
    "whole project is rendered through TemplateLoader.render and every src/*.cpp is compiled with clang++ "
    "-fsyntax-only against vtlib/cxx/shim; any error (undeclared identifier, missing member, redefinition) or "
    "macro-redefinition warning is a violation. Combinations naunet refuses at generation time with an exception "
    "are outside the domain and counted. Non-trivial = the combination has a grain model, a shielding table, "
    "thermal processes or modifiers; distinct = sha1 of the case."
)
ASSUMPTIONS = [
    "the shim declares exactly the SUNDIALS/Boost names naunet uses and is generous with libc/libm, so only naunet's own symbols are judged",
    "cuSPARSE sources cannot be compiled here (no CUDA headers) and are not part of this check",
    "UCLCHEM-format networks contain H2 and Leeds networks that photolyse GH2/GCO/GN2 contain the gas species (every real network does)",
]
GRAIN_MODELS = ["", "hh93", "hh93i", "rr07", "rr07x"]
BACKENDS = [("cvode", "dense", "cpu"), ("cvode", "sparse", "cpu"), ("odeint", "rosenbrock4", "cpu")]
SHIELD = [{}, {"H2": "L96Table"}, {"CO": "V09Table"}, {"CO": "VB88Table"}, {"N2": "L13Table"}, {"H2": "L96Table", "CO": "V09Table", "N2": "L13Table"}]
ICE = ["H", "H2", "CO", "H2O", "N2", "OH", "O", "C", "CH4", "NH3"]


def budget(tier):
    if tier == "quick":
        return dict(examples=14, shards=16, shrink_calls=40)
    return dict(examples=200, shards=16, shrink_calls=600)


def _lr(fmt, r, p, code, a=1.0e-10, b=0.0, c=0.0, idx=1, tmin=0, tmax=0):
    return {"fmt": fmt, "r": r, "p": p, "markers_r": [], "a": a, "b": b, "c": c, "tmin": tmin, "tmax": tmax, "idx": idx, "code": code}


@st.composite
def _lines(draw, fmt, grain):
    """Reaction lines of one format; grain/surface types only when a grain model is selected."""
    e = L.ELECTRON[fmt]
    pre = "G" if fmt == "leeds" else "#"
    out = []
    if fmt == "krome":
        return []
    gas_codes = {"kida": [1, 2, 3, 4, 5], "umist": ["NN", "PH", "CP", "CR", "DR"], "leeds": [1, 2, 3, 4, 5], "uclchem": ["", "CRP", "PHOTON", "CRPHOT"], "naunet": [100, 101, 102, 110, 111, 120]}[fmt]
    gas = [(["H", "H"], ["H2"]), (["H2", "C+"], ["CH+", "H"]), (["H+", e], ["H"]), (["CO"], ["C", "O"]), (["He+", e], ["He"]), (["H2"], ["H", "H"]), (["N2"], ["N", "N"]), (["H2O"], ["OH", "H"])]
    # H, H2, H+ and the electron are in every network (cooling processes, modifiers and the UCLCHEM class refer to them):
    # constructed, not filtered
    two_body = {"kida": 3, "umist": "NN", "leeds": 1, "uclchem": "", "naunet": 100}[fmt]
    out.append(_lr(fmt, ["H", "H"], ["H2"], two_body, a=1e-17))
    out.append(_lr(fmt, ["H+", e], ["H"], two_body, a=3.5e-12, b=-0.7))
    for code in draw(st.lists(st.sampled_from(gas_codes), min_size=2, max_size=6)):
        r, p = draw(st.sampled_from(gas))
        if fmt == "umist" and len(r) > 2:
            continue
        lr = _lr(fmt, list(r), list(p), code, a=draw(st.sampled_from([1e-10, 2.4e-9, -1e-10])), b=draw(st.sampled_from([0.0, -0.5, 1.0])), c=draw(st.sampled_from([0.0, 10.0, -3.0])))
        if fmt == "umist" and code in F.UMIST_MARKER:
            lr["r"] = lr["r"][:1]
            lr["markers_r"] = [(1, F.UMIST_MARKER[code])]
        if fmt == "uclchem" and code:
            lr["r"] = lr["r"][:2]
        if fmt == "leeds":
            lr["a"] = abs(lr["a"])
        out.append(lr)
    if grain and fmt in ("leeds", "uclchem"):
        ices = draw(st.lists(st.sampled_from(ICE), min_size=1, max_size=4, unique=True))
        for x in ices:
            if fmt == "leeds":
                kinds = draw(st.lists(st.sampled_from([7, 8, 9, 10]), min_size=1, max_size=4, unique=True))
                for k in kinds:
                    out.append(_lr(fmt, [x], [pre + x], 7, a=1.0) if k == 7 else _lr(fmt, [pre + x], [x], k, a=1.0))
            else:
                kinds = draw(st.lists(st.sampled_from(["FREEZE", "DESOH2", "DESCR", "DEUVCR", "THERM"]), min_size=1, max_size=5, unique=True))
                for k in kinds:
                    out.append(_lr(fmt, [x], [pre + x], "FREEZE", a=1.0) if k == "FREEZE" else _lr(fmt, [pre + x], [x], k, a=1.0, c=960.0))
        if fmt == "leeds":
            if draw(st.booleans()):
                out.append(_lr(fmt, ["H+", "GRAIN-"], ["H", "GRAIN0"], 6, a=1.0))
                out.append(_lr(fmt, ["e-", "GRAIN0"], ["GRAIN-"], 20, a=1.0))
            if draw(st.booleans()):
                a, b_ = draw(st.sampled_from([("H", "H", "H2"), ("O", "H", "OH"), ("OH", "H", "H2O"), ("C", "O", "CO"), ("H", "O", "OH")]))[:2], None
                trip = draw(st.sampled_from([("H", "H", "H2"), ("O", "H", "OH"), ("OH", "H", "H2O"), ("C", "O", "CO"), ("H", "O", "OH")]))
                out.append(_lr(fmt, [pre + trip[0], pre + trip[1]], [pre + trip[2]], 13, a=0.0))
                if draw(st.booleans()):
                    out.append(_lr(fmt, [pre + trip[0], pre + trip[1]], [trip[2]], 14, a=0.0))
        else:
            if draw(st.booleans()):
                out.append(_lr(fmt, [e], [], "FREEZE", a=1.0))
    for i, lr in enumerate(out):
        lr["idx"] = -1 if fmt == "uclchem" else i + 1
    return out


@st.composite
def _case(draw):
    nfmt = draw(st.sampled_from([1, 1, 1, 2]))
    fmts = draw(st.lists(st.sampled_from(["kida", "umist", "leeds", "uclchem", "naunet", "krome"]), min_size=nfmt, max_size=nfmt, unique=True))
    if "krome" in fmts and len(fmts) == 2 and draw(st.booleans()):
        # the KROME file is read after a file that spells the electron e-: its n(idx_E) still means that species
        fmts = [f for f in fmts if f != "krome"] + ["krome"]
    grain = draw(st.sampled_from(GRAIN_MODELS))
    files = []
    for fmt in fmts:
        if fmt == "krome":
            files.append({"fmt": "krome", "lines": [
                "@common:user_crflux,user_Av",
                # KROME's own shortcuts (Te, invT, T32 ...) are available to the right-hand side of an @var line
                draw(st.sampled_from(["@var:vt_te = Tgas*8.617343e-5", "@var:vt_te = Te", "@var:vt_te = 300.0*T32*8.617343e-5", "@var:vt_te = 8.617343e-5/invT"])),
                "@format:idx,R,R,R,P,P,P,Tmin,Tmax,rate",
                "1,H,E,,H+,E,E,NONE,NONE,exp(-32.7d0+13.5d0*lnTe)*vt_te",
                "2,H+,E,,H,,,NONE,.LE.5.5e3,3.92d-13*invTe**0.6353d0*user_crflux",
                "3,H,H,,H2,,,>10,NONE,1.0d-17*sqrTgas*T32**(0.5)*exp(-1.0d0*user_Av)",
            ] + (["5,H+,E,,H,,,NONE,NONE,2.0d-12*n(idx_E)/(n(idx_Hp)+n(idx_E))"] if draw(st.booleans()) else []) + (["@common:user_late", "@var:vt_t4 = Tgas*1.0e-4", "4,H2,E,,H,H,E,NONE,NONE,5.6d-11*exp(-1.02d5*invT)*sqrTgas*user_late*vt_t4"] if draw(st.booleans()) else []) + (
                # a user variable defined over KROME's Hnuclei (the deuterium example defines Hnuclei itself with
                # '@var:Hnuclei = get_Hnuclei(n(:))': that line has no C counterpart, every other @var line has)
                (["@var:Hnuclei = get_Hnuclei(n(:))"] if draw(st.booleans()) else []) + ["@var:vt_nt = 2.0d0*Hnuclei", "6,H2,H,,H,H,H,NONE,NONE,1.0d-30*vt_nt"] if draw(st.integers(0, 2)) == 0 else [])})
        else:
            files.append({"fmt": fmt, "lines": draw(_lines(fmt, bool(grain)))})
    om_choices = [[], [], [{"target": "H2", "factor": "0.5 * nH", "deps": ["H"]}, {"target": "H", "factor": "-1.0 * nH", "deps": ["H"]}], [{"target": "H2", "factor": "1.0e-17", "deps": ["H", "H"]}]]
    if grain == "hh93i" and fmts == ["leeds"]:
        # the ism example's H2-formation modifier uses a derived quantity of the dust model
        om_choices += [[{"target": "H2", "factor": "0.5 * hloss", "deps": ["H"]}, {"target": "H", "factor": "-hloss", "deps": ["H"]}]] * 2
    if grain and any(f in ("leeds", "uclchem") for f in fmts):
        # modifiers written in terms of the dust model's own derived quantities (every model declares garea, mant and
        # densites once a surface species instantiates it): they are copied into the RHS *and* into the Jacobian
        om_choices += [[{"target": "H2", "factor": "0.5 * garea", "deps": ["H"]}, {"target": "H", "factor": "-1.0 * garea * densites", "deps": ["H"]}],
                       [{"target": "H", "factor": "1.0e-3 * mant", "deps": ["H2"]}, {"target": "H2", "factor": "-1.0e-3 * mant", "deps": ["H2", "H"]}]] * 2
    if fmts == ["uclchem"]:
        # the cloud example's modifiers use derived quantities of the UCLCHEM reaction class
        om_choices += [[{"target": "H2", "factor": "H2formation", "deps": ["H"]}, {"target": "H2", "factor": "-H2dissociation", "deps": ["H2"]}]] * 2
    case = {
        "files": files,
        "grain_model": grain,
        "backend": draw(st.integers(0, 2)),
        "shielding": draw(st.sampled_from(SHIELD)),
        "cooling": draw(st.sampled_from([[], [], ["CIC_HI"], ["CIC_HI", "RC_HII", "CEC_HI"]])),
        "rate_mod": draw(st.sampled_from([{}, {}, {"1": "0.0"}, {"2": "1.0e-9 * nH"}])),
        "ode_mod": draw(st.sampled_from(om_choices)),
    }
    if grain in ("rr07", "rr07x") and draw(st.integers(0, 2)) == 0:
        # the dust itself is tracked as a species (extra species of the project) although the model takes its density as a parameter
        case["required"] = draw(st.sampled_from([["GRAIN0"], ["GRAIN0", "GRAIN0-"]]))
    return case


def strategy(tier):
    return _case()


def fixed_cases(tier):
    out = []
    H = lambda fmt, e: [_lr(fmt, ["H", "H"], ["H2"], {"kida": 3, "umist": "NN", "leeds": 1, "uclchem": "", "naunet": 100}[fmt], idx=-1 if fmt == "uclchem" else 1), _lr(fmt, ["H+", e], ["H"], {"kida": 3, "umist": "RR", "leeds": 1, "uclchem": "", "naunet": 100}[fmt], idx=-1 if fmt == "uclchem" else 2)]
    pre = {"leeds": "G", "uclchem": "#"}
    for fmt, models in (("leeds", ["hh93", "hh93i"]), ("uclchem", ["rr07", "rr07x"])):
        for gm in models:
            for be in range(3):
                lines = H(fmt, L.ELECTRON[fmt])
                p = pre[fmt]
                if fmt == "leeds":
                    lines += [_lr(fmt, ["CO"], [p + "CO"], 7, a=1.0, idx=3), _lr(fmt, [p + "CO"], ["CO"], 8, a=1.0, idx=4), _lr(fmt, [p + "CO"], ["CO"], 9, a=1.0, idx=5), _lr(fmt, [p + "CO"], ["CO"], 10, a=1.0, idx=6),
                              _lr(fmt, ["H+", "GRAIN-"], ["H", "GRAIN0"], 6, a=1.0, idx=7), _lr(fmt, ["e-", "GRAIN0"], ["GRAIN-"], 20, a=1.0, idx=8), _lr(fmt, [p + "H", p + "H"], [p + "H2"], 13, a=0.0, idx=9), _lr(fmt, [p + "H", p + "H"], ["H2"], 14, a=0.0, idx=10), _lr(fmt, ["H"], [p + "H"], 7, a=1.0, idx=11), _lr(fmt, ["H2"], [p + "H2"], 7, a=1.0, idx=12)]
                else:
                    lines += [_lr(fmt, ["CO"], [p + "CO"], "FREEZE", a=1.0, idx=-1), _lr(fmt, [p + "CO"], ["CO"], "DESOH2", a=1.0, c=960.0, idx=-1), _lr(fmt, [p + "CO"], ["CO"], "DESCR", a=1.0, c=960.0, idx=-1), _lr(fmt, [p + "CO"], ["CO"], "DEUVCR", a=1.0, c=960.0, idx=-1)]
                    if gm == "rr07x":
                        lines.append(_lr(fmt, [p + "CO"], ["CO"], "THERM", a=1.0, c=960.0, idx=-1))
                out.append({"files": [{"fmt": fmt, "lines": lines}], "grain_model": gm, "backend": be, "shielding": SHIELD[5] if be == 0 else {}, "cooling": ["CIC_HI"] if be == 1 else [], "rate_mod": {}, "ode_mod": []})
    return out


def build_net(case, d):
    from naunet.network import Network

    paths, fmts = [], []
    for k, f in enumerate(case["files"]):
        path = os.path.join(d, f"net{k}.{f['fmt']}")
        with open(path, "w") as fh:
            if f["fmt"] == "krome":
                fh.write("\n".join(f["lines"]) + "\n")
            else:
                fh.write("\n".join(L.encode(lr, {"padded": False}) for lr in f["lines"]) + "\n")
        paths.append(path)
        fmts.append(f["fmt"])
    species = {s for f in case["files"] if f["fmt"] != "krome" for lr in f["lines"] for s in lr["r"] + lr["p"]}
    omod = {}
    for m in case.get("ode_mod", []):
        ent = omod.setdefault(m["target"], {"factors": [], "reactants": []})
        ent["factors"].append(m["factor"])
        ent["reactants"].append(list(m["deps"]))
    kw = {}
    if any(f["fmt"] == "leeds" for f in case["files"]) and all(f["fmt"] == "leeds" for f in case["files"]):
        kw["species_kwargs"] = {"surface_prefix": "G"}
    if case.get("required"):
        kw["required_species"] = list(case["required"])
    return Network(filelist=paths, fileformats=fmts, grain_model=case["grain_model"], cooling=list(case["cooling"]), shielding=dict(case["shielding"]),
                   rate_modifier={int(k): v for k, v in case["rate_mod"].items()}, ode_modifier=omod, **kw)


def check_case(case, tier):
    N.reset_naunet_state()
    failures = []
    fmts = [f["fmt"] for f in case["files"]]
    solver, method, device = BACKENDS[case["backend"]]
    labels = [f"fmt-{'+'.join(sorted(fmts))}", f"grain-{case['grain_model'] or 'none'}", f"method-{method}"]
    if case["shielding"]:
        labels.append("shielding-" + "+".join(f"{k}:{v}" for k, v in sorted(case["shielding"].items())))
    if case["cooling"]:
        labels.append("cooling")
    if case["rate_mod"] or case["ode_mod"]:
        labels.append("modifiers")
    if case.get("required"):
        labels.append("tracked-grain-species")
    nontrivial = bool(case["grain_model"] or case["shielding"] or case["cooling"] or case["rate_mod"] or case["ode_mod"])
    # precondition: modifiers / cooling must refer to species of the network; H2 in uclchem networks
    species = {s for f in case["files"] if f["fmt"] != "krome" for lr in f["lines"] for s in lr["r"] + lr["p"]}
    if any(f["fmt"] == "krome" for f in case["files"]):
        species |= {"H", "H+", "E", "H2"}
    for m in case.get("ode_mod", []):
        if m["target"] not in species or any(x not in species for x in m["deps"]):
            return CaseResult(discarded=True)
    if case["cooling"] and not ({"H", "H+"} <= species and ({"e-"} & species or {"E-"} & species or {"E"} & species)):
        return CaseResult(discarded=True)
    if "uclchem" in fmts and "H2" not in species:
        return CaseResult(discarded=True)
    from naunet.templateloader import TemplateLoader

    other = 0
    with N.Scratch() as d:
        try:
            net = build_net(case, str(d))
            tl = TemplateLoader(solver, method, device)
            out = d / "proj"
            out.mkdir()
            tl.render("vtproj", net, path=out)
        except Exception as e:
            # refused at generation time: outside "supported combination"
            return CaseResult([], False, labels + [f"refused-{type(e).__name__}"], sample={"refused": f"{type(e).__name__}: {str(e)[:120]}", "combo": labels}, extra={"refused_at_generation": 1})
        diags = build.syntax_check(out)
        other = 0
        for fname, ds in diags:
            named = [x for x in ds if build.classify_diag(x).split(":")[0] in ("undeclared", "no-member", "redefinition", "macro-redefined")]
            if not named:
                # a diagnostic that is not about a missing / duplicated name (e.g. an empty renorm factor) belongs to another property
                other += 1
                labels.append("other-diagnostic:" + build.classify_diag(ds[0])[:40])
                continue
            ds = named
            cls = build.classify_diag(ds[0])
            if cls == "undeclared:stick" and case["grain_model"] == "hh93i" and "leeds" not in fmts:
                cls += "/hh93i-without-leeds"
            if cls == "undeclared:IDX_EM" and "krome" in fmts and fmts[0] != "krome" and any("n(idx_E)" in ln for f in case["files"] if f["fmt"] == "krome" for ln in f["lines"]):
                cls += "/krome-abundance-reference-after-a-file-spelling-e-"
            failures.append((f"closure/{cls}", f"{'+'.join(fmts)} grain={case['grain_model'] or 'none'} {method}: {fname}: {ds[0].split(': ', 1)[-1][:300]}"))
    sample = {"formats": fmts, "grain_model": case["grain_model"], "method": method, "shielding": case["shielding"], "cooling": case["cooling"], "n_lines": sum(len(f["lines"]) for f in case["files"])}
    return CaseResult(failures, nontrivial, labels, sample=sample, extra={"translation_units_with_non_name_diagnostics": other})
