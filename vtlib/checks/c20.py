"""C20 — project configuration round trip: what is configured is what is rendered."""
from __future__ import annotations
import hashlib
import os
import re
import shutil
import tempfile
from pathlib import Path

from hypothesis import strategies as st

from ..runner import CaseResult
from ..gen import lines as L
from . import c17

PROPERTY = "C20"
LEVEL = "exploration"
TECHNIQUE = "property-based testing (Hypothesis) over generated `naunet init` option sets, run in fresh interpreters: (1) the written naunet_config.toml parsed with tomlkit must equal the requested description field by field, (2) sources from `init --render` must equal, byte for byte, the sources of the equivalent Network(...)+TemplateLoader rendering done in another fresh process"
RULE = (
    "Option sets for `naunet init`: element / pseudo-element lists, replacement tables, surface / bulk prefixes "
    "(incl. non-default), grain symbol, allowed / extra species, binding-energy and yield tables, files + formats, "
    "grain model, cooling, shielding, rate / ODE modifiers (several occurrences, several terms per species), "
    "solver x device x method; list items and table entries are spelled with and without blanks after the "
    "separators and around key/value separators; empty values. Each case runs `naunet init <options> --render "
    "--render-force` through cleo's CommandTester in a scratch directory in a fresh interpreter. Oracle: (1) every "
    "field of naunet_config.toml equals the requested value (my own reading of the option strings: comma lists, "
    "'k: v' and 'k=v' tables, ';'-separated ODE terms); (2) the include/ src/ python/ trees equal those of the "
    "equivalent API rendering (symbol tables installed the way `render` documents, Network(...), "
    "TemplateLoader.render) performed in another fresh process. Non-trivial = a non-empty key/value table or a "
    "list with >=2 items."
)
ASSUMPTIONS = [
    "list items and table keys that contain the option's own separator are not generated (no quoting mechanism is documented); rate-modifier values do contain ':' (kept) and ',' (the multi-value separator: such a value can only be refused, and a refusal is counted, not reported)",
    "the example command's option strings are covered through the same init parser (its dry-run output format: 'k: v' and 'k=v' joined by ',')",
]


def budget(tier):
    if tier == "quick":
        return dict(examples=8, shards=16, shrink_calls=25)
    return dict(examples=80, shards=16, shrink_calls=300)


@st.composite
def _sep(draw, base):
    return base + draw(st.sampled_from(["", "", " "]))


@st.composite
def _case(draw):
    d = draw(c17._desc(draw(st.sampled_from(["kida", "uclchem-upper", "leeds-grain", "umist-mod", "naunet", "krome"]))))
    d.pop("kind")
    d["name"] = draw(st.sampled_from(["vtproj", "my_net", "nullnet"]))
    d["description"] = draw(st.sampled_from(["", "a test project", "annulled rates"]))
    d["bulk"] = draw(st.sampled_from(["@", "@", "%"]))
    d["grain_symbol"] = "GRAIN"
    if not d["elements"]:
        # init writes the default lists when none is given; ask for them explicitly so that the request is known
        d["elements"] = ["e", "E", "H", "D", "He", "C", "N", "O", "Si", "S", "Mg"] + sorted({"Ar", "Fe", "Na"} & set(d["required"]))
        d["pseudo"] = ["CR", "CRP", "Photon", "PHOTON", "CRPHOT"]
    if draw(st.integers(0, 2)) == 0:
        # pseudo-elements are regular expressions (the default list carries the excited-state marker as '\\*' and the
        # isomer prefixes 'c-', 'l-'): they must reach the configuration verbatim
        d["pseudo"] = list(d["pseudo"]) + draw(st.sampled_from([["\\*"], ["c-", "l-"], ["c-", "\\*"]]))
    if d["rate_mod"] and draw(st.integers(0, 2)) == 0:
        # values containing the option's own separators: ':' (a C conditional) is part of the value after the first ':';
        # ',' separates several modifiers in one option, so a value with a comma can only be refused
        k0 = sorted(d["rate_mod"])[0]
        d["rate_mod"][k0] = draw(st.sampled_from(["Tgas > 20.0 ? 1.0e-10 : 0.5e-10", "Tgas > 20.0 ? 1.0e-10 : 0.5e-10", "1.0e-10 * pow(Tgas / 300.0, 0.5)",
                                                  "(Tgas > 20.0 ? 1.0e-10 : 2.0e-10) * pow(Tgas, 0.5)"]))
    d["cooling"] = []
    d["shielding"] = draw(st.sampled_from([{}, {}, {"CO": "VB88Table"}, {"H2": "L96Table", "CO": "V09Table"}]))
    if d["fmt"] in ("kida", "umist", "naunet") and draw(st.booleans()):
        d["ode_mod_terms"] = draw(st.sampled_from([
            [["H2", "0.5 * nH", ["H"]], ["H", "-1.0 * nH", ["H"]]],
            [["H2", "1.0e-17", ["H", "H"]], ["H2", "-2.0e-17", ["H2"]]],
            [["H2", "1.0e-17", ["H", "H"]], ["H2", "-2.0e-17", ["H2"]]],
            [["H", "-2.5e-17", ["H"]], ["H2", "0.5e-17", ["H"]], ["H", "1.5e-17", ["H2"]]],
            [["H", "-2.5e-17", ["H"]]],
        ]))
    else:
        d["ode_mod_terms"] = []
    if d["fmt"] in ("kida", "umist", "naunet") and not d["allowed"] and draw(st.integers(0, 3)) == 0:
        if not any(x == "\\*" for x in d["pseudo"]):
            d["pseudo"] = list(d["pseudo"]) + ["\\*"]
        # an excited species (the marker is the pseudo-element '\*') that a modifier term depends on: H2* relaxes to H2 in the network,
        # the user pumps H2* from H2 and lets H form from H2*
        code = {"kida": 3, "umist": "NN", "naunet": 100}[d["fmt"]]
        nlines = len([ln for ln in d["text"].split("\n") if ln.strip()])
        d["text"] += c17.L.encode(c17._lr(d["fmt"], ["H2*", "H"], ["H2", "H"], code, 900 + nlines), {"padded": True}) + "\n"
        d["ode_mod_terms"] = list(d["ode_mod_terms"]) + [["H2*", "1.0e-11 * nH", ["H2"]], ["H", "2.0e-9", ["H2*"]]]
        d["has_excited"] = True
    # several terms in one option are separated by ';' - a trailing ';' or an empty item between two separators (`a;;b`) adds no term
    d["ode_split"] = draw(st.sampled_from(["one-option", "one-per-term", "one-per-term", "one-per-term", "one-option-trailing-separator", "one-option-empty-item"]))
    d["spacing"] = {k: draw(st.sampled_from(["", " "])) for k in ("list", "table", "kv", "terms")}
    return d


@st.composite
def _export_case(draw):
    d = draw(_case())
    d["kind"] = "export"
    # API users give numbers as well as expression strings
    if d["rate_mod"] or draw(st.integers(0, 3)) > 0:
        d["rate_mod"] = {draw(st.sampled_from(["1", "2"])): draw(st.sampled_from([0.0, 0.0, 0.0, 1.0e-10, "0.0", "1.0e-9 * nH"]))}
    # the project directory may already hold an earlier export of another network (export(..., overwrite=True) again)
    if draw(st.integers(0, 2)) == 0:
        prev = draw(_case())
        d["previous"] = {k: prev[k] for k in prev if k != "spacing"}
    return d


def strategy(tier):
    return st.one_of(_case(), _case(), _export_case())


EXAMPLES = ["empty/dense", "empty/sparse", "empty/cusparse", "empty/rosenbrock4", "minimal/dense", "minimal/sparse", "minimal/cusparse", "minimal/rosenbrock4",
            "primordial/dense", "primordial/sparse", "primordial/cusparse", "primordial/rosenbrock4", "deuterium/dense", "deuterium/sparse", "deuterium/cusparse",
            "deuterium/rosenbrock4", "cloud/dense", "cloud/sparse", "cloud/rosenbrock4", "ism/dense", "ism/sparse", "ism/cusparse"]


def fixed_cases(tier):
    """The option strings `naunet example --dry` prints for the bundled examples whose network file ships."""
    sel = ["minimal/dense", "minimal/rosenbrock4", "primordial/sparse", "cloud/dense", "empty/dense"]
    if tier == "thorough":
        sel += ["minimal/sparse", "primordial/dense", "primordial/rosenbrock4", "cloud/sparse", "cloud/rosenbrock4", "deuterium/dense"]
    return [{"kind": "example", "select": EXAMPLES.index(x), "example": x} for x in sel]


def run_example(payload):
    """Fresh process: `naunet example --select=i --dry`, then the printed `naunet init ...` in a scratch directory."""
    import importlib
    import io
    import contextlib
    import naunet
    from cleo.application import Application
    from cleo.testers.command_tester import CommandTester
    from naunet.console.commands import ExampleCommand, InitCommand, RenderCommand

    root = tempfile.mkdtemp(prefix="vt-")
    cwd = os.getcwd()
    try:
        os.chdir(root)
        app = Application()
        for c in (ExampleCommand(), InitCommand(), RenderCommand()):
            app.add(c)
        buf = io.StringIO()
        t = CommandTester(app.find("example"))
        with contextlib.redirect_stdout(buf):
            t.execute(f"--select={payload['select']} --dry")
        out = buf.getvalue() + t.io.fetch_output()
        line = next((ln for ln in out.splitlines() if ln.startswith("naunet init ")), None)
        if line is None:
            return {"raised": f"no init command printed: {out[-200:]}"}
        opts = line[len("naunet init "):].replace("--render", "--render --render-force", 1) if "--render-force" not in line else line[len("naunet init "):]
        name = payload["example"].split("/")[0]
        mod = importlib.import_module(f"naunet.examples.{name}")
        if mod.files:
            shutil.copyfile(Path(naunet.__file__).parent / "examples" / name / mod.files, Path(root) / mod.files)
        ti = CommandTester(app.find("init"))
        try:
            rc = ti.execute(opts)
        except Exception as e:
            import traceback

            tb = traceback.extract_tb(e.__traceback__)
            where = next((f"{fr.filename.split('/')[-1]}:{fr.name}" for fr in reversed(tb) if "/naunet/" in fr.filename), "?")
            return {"raised": f"{type(e).__name__}@{where}: {str(e)[:200]}", "options": opts[:400]}
        cfg = Path("naunet_config.toml").read_text() if Path("naunet_config.toml").exists() else None
        return {"status": rc, "config": cfg, "tree": _tree(root), "err": ti.io.fetch_error()[-300:], "options": opts[:400]}
    finally:
        os.chdir(cwd)
        shutil.rmtree(root, ignore_errors=True)


def example_desc(example):
    """The description the example module asks for (what `naunet example` is supposed to configure)."""
    import importlib
    import naunet

    name, method = example.split("/")
    mod = importlib.import_module(f"naunet.examples.{name}")
    text = (Path(naunet.__file__).parent / "examples" / name / mod.files).read_text() if mod.files else ""
    terms = []
    for sname, expr in mod.ode_modifier.items():
        for fact, dep in zip(expr["factors"], expr["reactants"]):
            terms.append([sname, fact, list(dep)])
    return {
        "fmt": mod.formats, "text": text, "elements": list(mod.elements), "pseudo": list(mod.pseudo_elements), "replacement": dict(mod.element_replacement),
        "surface": mod.surface_prefix, "bulk": mod.bulk_prefix, "grain_symbol": mod.grain_symbol, "allowed": list(mod.allowed_species), "required": list(mod.extra_species),
        "binding": dict(mod.binding_energy), "yields": dict(mod.photon_yield), "grain_model": mod.grain_model, "cooling": list(mod.cooling), "shielding": dict(mod.shielding),
        "rate_mod": {str(k): str(v) for k, v in mod.rate_modifier.items()}, "ode_mod_terms": terms, "name": "vtproj", "description": mod.description,
        "backend": ["odeint" if method == "rosenbrock4" else "cvode", method, "gpu" if method == "cusparse" else "cpu"], "files": mod.files,
    }


def check_example(case):
    import tomlkit
    from ..proc.call import call

    failures = []
    ex = case["example"]
    labels = ["example-" + ex]
    d = call("vtlib.checks.c20", "example_desc", ex)
    res = call("vtlib.checks.c20", "run_example", {"select": case["select"], "example": ex}, timeout=1800)
    if "raised" in res:
        failures.append((f"example/{ex.split('/')[0]}/init-raises/{res['raised'].split(':')[0]}", f"naunet example {ex}: {res['raised']} [{res.get('options', '')[:200]}]"))
        return CaseResult(failures, True, labels, sample={"example": ex})
    if res["config"] is None:
        failures.append((f"example/{ex.split('/')[0]}/no-config", res["err"]))
        return CaseResult(failures, True, labels, sample={"example": ex})
    cfg = tomlkit.parse(res["config"])
    ch = cfg["chemistry"]
    om = {}
    for t, f, deps in d["ode_mod_terms"]:
        ent = om.setdefault(t, {"factors": [], "reactants": []})
        ent["factors"].append(f)
        ent["reactants"].append(list(deps))
    want = {
        "element.elements": list(d["elements"]) or None, "element.pseudo_elements": list(d["pseudo"]) or None, "element.replacement": dict(d["replacement"]),
        "species.allowed": list(d["allowed"]), "species.required": list(d["required"]),
        "species.binding_energy": {k: float(v) for k, v in d["binding"].items()}, "species.photon_yield": {k: float(v) for k, v in d["yields"].items()},
        "grain.model": d["grain_model"], "network.files": [d["files"]] if d["files"] else [], "network.formats": [d["fmt"]] if d["fmt"] else [],
        "thermal.cooling": list(d["cooling"]), "shielding": dict(d["shielding"]), "rate_modifier": dict(d["rate_mod"]), "ode_modifier": om,
        "solver": list(d["backend"][:1]) + [d["backend"][2], d["backend"][1]],
    }
    got = {
        "element.elements": [str(x) for x in ch["element"]["elements"]], "element.pseudo_elements": [str(x) for x in ch["element"]["pseudo_elements"]],
        "element.replacement": {str(k): str(v) for k, v in ch["element"]["replacement"].items()},
        "species.allowed": [str(x) for x in ch["species"]["allowed"]], "species.required": [str(x) for x in ch["species"]["required"]],
        "species.binding_energy": {str(k): float(v) for k, v in ch["species"]["binding_energy"].items()}, "species.photon_yield": {str(k): float(v) for k, v in ch["species"]["photon_yield"].items()},
        "grain.model": str(ch["grain"]["model"]), "network.files": [str(x) for x in ch["network"]["files"]], "network.formats": [str(x) for x in ch["network"]["formats"]],
        "thermal.cooling": [str(x) for x in ch["thermal"]["cooling"]], "shielding": {str(k): str(v) for k, v in ch["shielding"].items()},
        "rate_modifier": {str(k): str(v) for k, v in ch["rate_modifier"].items()},
        "ode_modifier": {str(k): {"factors": [str(x) for x in v["factors"]], "reactants": [[str(y) for y in x] for x in v["reactants"]]} for k, v in ch["ode_modifier"].items()},
        "solver": [str(cfg["ODEsolver"]["solver"]), str(cfg["ODEsolver"]["device"]), str(cfg["ODEsolver"]["method"])],
    }
    for key, w in want.items():
        if w is None:
            continue
        if got[key] != w:
            failures.append((f"example/{ex.split('/')[0]}/field/{key}", f"naunet example {ex}: {key} configured {str(got[key])[:200]} but the example asks for {str(w)[:200]}"))
    if not failures and d["backend"][2] == "cpu":
        if res["status"] != 0 or not res["tree"]:
            failures.append((f"example/{ex.split('/')[0]}/render-failed", f"status {res['status']}: {res['err']}"))
        else:
            d2 = dict(d, elements=[str(x) for x in ch["element"]["elements"]], pseudo=[str(x) for x in ch["element"]["pseudo_elements"]])
            d2["fmt"] = d["fmt"] or "naunet"
            d2["name"] = str(cfg["general"]["name"])  # the example names the project after its directory
            api = call("vtlib.checks.c20", "run_api", {"desc": d2, "fname": d["files"]}, timeout=1800)
            if "raised" in api:
                failures.append((f"example/{ex.split('/')[0]}/api-render-raises", api["raised"]))
            elif api["tree"] != res["tree"]:
                diff = sorted(k for k in set(res["tree"]) | set(api["tree"]) if res["tree"].get(k) != api["tree"].get(k))
                failures.append((f"example/{ex.split('/')[0]}/sources-differ/{diff[0].split('/')[-1]}", f"files differing between `naunet example` and the API rendering: {diff[:5]}"))
    return CaseResult(failures, True, labels, sample={"example": ex, "options": res.get("options", "")[:300]})


def option_string(d):
    sp = d["spacing"]
    j = lambda items: ("," + sp["list"]).join(items)
    kv = lambda table, eq: ("," + sp["table"]).join(f"{k}{sp['kv'] if eq == ':' else ''}{eq}{sp['kv'] if eq == ':' else ''}{v}" for k, v in table.items())
    kv_eq = lambda table: ("," + sp["table"]).join(f"{k}={v}" for k, v in table.items())
    s, m, dv = d["backend"]
    opts = [
        f"--name={d['name']}",
        f"--description='{d['description']}'",
        "--loading=''",
        f"--surface-prefix={d['surface']}",
        f"--bulk-prefix={d['bulk']}",
        f"--elements='{j(d['elements'])}'",
        f"--pseudo-elements='{j(d['pseudo'])}'",
        f"--element-replacement='{kv(d['replacement'], ':')}'",
        f"--allowed-species='{j(d['allowed'])}'",
        f"--extra-species='{j(d['required'])}'",
        f"--binding='{kv_eq(d['binding'])}'",
        f"--yield='{kv_eq(d['yields'])}'",
        f"--grain-symbol='{d['grain_symbol']}'",
        f"--grain-model='{d['grain_model']}'",
        f"--network-files='network.{d['fmt']}'",
        f"--file-formats='{d['fmt']}'",
        "--heating=''",
        f"--cooling='{j(d['cooling'])}'",
        f"--shielding='{kv(d['shielding'], ':')}'",
    ]
    for k, v in d["rate_mod"].items():
        opts.append(f"--rate-modifier='{k}:{v}'")
    terms = [f"{t}:{f},[{' '.join(deps)}]" for t, f, deps in d["ode_mod_terms"]]
    if terms:
        if d["ode_split"].startswith("one-option"):
            sep = ";;" if d["ode_split"] == "one-option-empty-item" else ";"
            tail = ";" if d["ode_split"] == "one-option-trailing-separator" else ""
            opts.append("--ode-modifier='" + (sep + sp.get("terms", "")).join(terms) + tail + "'")  # a blank may follow the ';' as it may follow ','

        else:
            opts += [f"--ode-modifier='{t}'" for t in terms]
    opts += [f"--solver={s}", f"--device={dv}", f"--method={m}", "--render", "--render-force"]
    return " ".join(opts)


def requested(d):
    om = {}
    for t, f, deps in d["ode_mod_terms"]:
        ent = om.setdefault(t, {"factors": [], "reactants": []})
        ent["factors"].append(f)
        ent["reactants"].append(list(deps))
    s, m, dv = d["backend"]
    return {
        "general.name": d["name"],
        "general.description": d["description"],
        "symbol.grain": d["grain_symbol"],
        "symbol.surface": d["surface"],
        "symbol.bulk": d["bulk"],
        "element.elements": list(d["elements"]),
        "element.pseudo_elements": list(d["pseudo"]),
        "element.replacement": dict(d["replacement"]),
        "species.allowed": list(d["allowed"]),
        "species.required": list(d["required"]),
        "species.binding_energy": {k: float(v) for k, v in d["binding"].items()},
        "species.photon_yield": {k: float(v) for k, v in d["yields"].items()},
        "grain.model": d["grain_model"],
        "network.files": [f"network.{d['fmt']}"],
        "network.formats": [d["fmt"]],
        "thermal.cooling": list(d["cooling"]),
        "shielding": dict(d["shielding"]),
        "rate_modifier": {str(k): str(v) for k, v in d["rate_mod"].items()},
        "ode_modifier": om,
        "solver": [s, dv, m],
    }


def _tree(root):
    out = {}
    root = Path(root)
    for sub in ("include", "src", "python"):
        if (root / sub).exists():
            for p in sorted((root / sub).rglob("*")):
                if p.is_file():
                    out[str(p.relative_to(root))] = hashlib.sha256(p.read_bytes()).hexdigest()[:16]
    return out


def run_init(payload):
    """Fresh process: `naunet init <options>` in a scratch directory."""
    import tomlkit
    from cleo.application import Application
    from cleo.testers.command_tester import CommandTester
    from naunet.console.commands import InitCommand, RenderCommand

    d = payload["desc"]
    root = tempfile.mkdtemp(prefix="vt-")
    cwd = os.getcwd()
    try:
        os.chdir(root)
        Path(f"network.{d['fmt']}").write_text(d["text"])
        app = Application()
        app.add(InitCommand())
        app.add(RenderCommand())
        t = CommandTester(app.find("init"))
        try:
            rc = t.execute(payload["options"])
        except Exception as e:
            import traceback

            tb = traceback.extract_tb(e.__traceback__)
            where = next((f"{fr.filename.split('/')[-1]}:{fr.name}" for fr in reversed(tb) if "/naunet/" in fr.filename), "?")
            return {"raised": f"{type(e).__name__}@{where}: {str(e)[:200]}"}
        cfg = Path("naunet_config.toml").read_text() if Path("naunet_config.toml").exists() else None
        files = {}
        for rel in payload.get("want_files", []):
            p = Path(root) / rel
            files[rel] = p.read_text() if p.exists() else None
        return {"status": rc, "config": cfg, "tree": _tree(root), "err": t.io.fetch_error()[-300:], "files": files}
    finally:
        os.chdir(cwd)
        shutil.rmtree(root, ignore_errors=True)


def run_api(payload):
    """Fresh process: the equivalent API rendering."""
    from naunet.species import Species
    from naunet.network import Network
    from naunet.templateloader import TemplateLoader
    from naunet import chemistrydata
    from naunet.chemistrydata import update_binding_energy, update_photon_yield

    d = payload["desc"]
    root = tempfile.mkdtemp(prefix="vt-")
    cwd = os.getcwd()
    try:
        os.chdir(root)
        fname = payload.get("fname") or f"network.{d['fmt']}"
        if payload.get("fname") is None or payload.get("fname"):
            Path(fname).write_text(d["text"])
        Species._replacement = dict(d["replacement"])
        Species.set_known_elements(list(d["elements"]))
        Species.set_known_pseudoelements(list(d["pseudo"]))
        sk = {"grain_symbol": d["grain_symbol"], "surface_prefix": d["surface"], "bulk_prefix": d["bulk"]}
        update_binding_energy({Species(k, **sk).name: v for k, v in d["binding"].items()})
        update_photon_yield({Species(k, **sk).name: v for k, v in d["yields"].items()})
        om = {}
        for t, f, deps in d["ode_mod_terms"]:
            ent = om.setdefault(t, {"factors": [], "reactants": []})
            ent["factors"].append(f)
            ent["reactants"].append(list(deps))
        s, m, dv = d["backend"]
        try:
            # a description the API itself refuses (e.g. a shrunk variant whose element list lost a symbol that a
            # species needs) is outside the domain of the round trip
            net = Network(
                filelist=[fname] if fname and d["text"] else [], fileformats=[d["fmt"]] if fname and d["text"] else [], elements=list(d["elements"]), pseudo_elements=list(d["pseudo"]),
                allowed_species=list(d["allowed"]), required_species=list(d["required"]), species_kwargs=sk, grain_model=d["grain_model"],
                heating=[], cooling=list(d["cooling"]), shielding=dict(d["shielding"]),
                rate_modifier={int(k): v for k, v in d["rate_mod"].items()}, ode_modifier=om,
            )
            TemplateLoader(s, m, dv).render(d["name"], net, path=Path(root))
        except Exception as e:
            return {"raised": f"{type(e).__name__}: {str(e)[:200]}"}
        files = {}
        for rel in payload.get("want_files", []):
            p = Path(root) / rel
            files[rel] = p.read_text() if p.exists() else None
        return {"tree": _tree(root), "files": files}
    finally:
        os.chdir(cwd)
        shutil.rmtree(root, ignore_errors=True)


def _meaning(projdir, backend):
    """Order-insensitive reading of a rendered project: index table, RHS polynomials, macro sizes (as text)."""
    from ..ctext.extract import Project

    pr = Project(projdir, *backend)
    fex = pr.fex_polys()
    # the rate statements as text (blank-normalised): the same reaction file and modifiers give the same statements
    stem = "naunet_ode" if backend[0] == "odeint" else "naunet_rates"
    ext = "cu" if backend[2] == "gpu" else "cpp"
    src = Path(projdir) / "src" / f"{stem}.{ext}"
    rates = [re.sub(r"\s+", " ", m).strip() for m in re.findall(r"^[ \t]*(?:if[^\n;]*\{[ \t]*)?k\[\d+\][ \t]*=[^;]*;", src.read_text(), re.M)] if src.exists() else []
    return {"idx": sorted(pr.idx_table().items()), "fex": {str(k): str(v) for k, v in sorted(fex.items())},
            "sizes": [pr.neq, pr.nspec, pr.nreac], "rates": rates}


def rerender_exported(payload):
    """Fresh process: `naunet render --force` inside an exported project."""
    from cleo.application import Application
    from cleo.testers.command_tester import CommandTester
    from naunet.console.commands import RenderCommand

    cwd = os.getcwd()
    os.chdir(payload["dir"])
    try:
        app = Application()
        app.add(RenderCommand())
        t = CommandTester(app.find("render"))
        try:
            rc = t.execute("--force")
        except Exception as e:
            import traceback

            tb = traceback.extract_tb(e.__traceback__)
            where = next((f"{fr.filename.split('/')[-1]}:{fr.name}" for fr in reversed(tb) if "/naunet/" in fr.filename), "?")
            return {"raised": f"{type(e).__name__}@{where}: {str(e)[:200]}"}
        if rc != 0:
            return {"raised": f"status {rc}: {t.io.fetch_error()[-200:]}"}
        return {"meaning": _meaning(Path(payload["dir"]), payload["backend"])}
    finally:
        os.chdir(cwd)


def run_export(payload):
    """Fresh process: Network(...) through the API, then Network.export(); returns the written configuration."""
    from naunet.species import Species
    from naunet.network import Network
    from naunet.chemistrydata import update_binding_energy, update_photon_yield

    d = payload["desc"]
    root = payload.get("root") or tempfile.mkdtemp(prefix="vt-")
    cwd = os.getcwd()
    try:
        os.chdir(root)
        fname = f"network.{d['fmt']}"
        Path(fname).write_text(d["text"])
        Species._replacement = dict(d["replacement"])
        Species.set_known_elements(list(d["elements"]))
        Species.set_known_pseudoelements(list(d["pseudo"]))
        sk = {"grain_symbol": d["grain_symbol"], "surface_prefix": d["surface"], "bulk_prefix": d["bulk"]}
        update_binding_energy({Species(k, **sk).name: v for k, v in d["binding"].items()})
        update_photon_yield({Species(k, **sk).name: v for k, v in d["yields"].items()})
        om = {}
        for t, f, deps in d["ode_mod_terms"]:
            ent = om.setdefault(t, {"factors": [], "reactants": []})
            ent["factors"].append(f)
            ent["reactants"].append(list(deps))
        net = Network(
            filelist=[fname], fileformats=[d["fmt"]], elements=list(d["elements"]), pseudo_elements=list(d["pseudo"]),
            allowed_species=list(d["allowed"]), required_species=list(d["required"]), species_kwargs=sk, grain_model=d["grain_model"],
            heating=[], cooling=list(d["cooling"]), shielding=dict(d["shielding"]),
            rate_modifier={int(k): v for k, v in d["rate_mod"].items()}, ode_modifier=om,
        )
        s, m, dv = d["backend"]
        try:
            net.export("vtexp", solver=s, method=m, device=dv, prefix=root, overwrite=True)
            if payload.get("again"):
                # export the same network once more into the now existing directory
                net.export("vtexp", solver=s, method=m, device=dv, prefix=root, overwrite=True)
        except Exception as e:
            import traceback

            tb = traceback.extract_tb(e.__traceback__)
            where = next((f"{fr.filename.split('/')[-1]}:{fr.name}" for fr in reversed(tb) if "/naunet/" in fr.filename), "?")
            return {"raised": f"{type(e).__name__}@{where}: {str(e)[:200]}"}
        out = {"config": (Path(root) / "vtexp" / "naunet_config.toml").read_text()}
        if payload.get("rerender"):
            # what the exported project means as rendered by export() itself (API), then - in a second fresh process -
            # as rendered by `naunet render` from the exported files
            out["api_meaning"] = _meaning(Path(root) / "vtexp", d["backend"])
            from ..proc.call import call

            out["cli"] = call("vtlib.checks.c20", "rerender_exported", {"dir": str(Path(root) / "vtexp"), "backend": d["backend"]})
        return out
    finally:
        os.chdir(cwd)
        if not payload.get("root"):
            shutil.rmtree(root, ignore_errors=True)


def check_export(d):
    import tomlkit
    from ..proc.call import call

    failures = []
    labels = ["export-route", f"fmt-{d['fmt']}"]
    api = call("vtlib.checks.c20", "run_api", {"desc": d})
    if "raised" in api:
        return CaseResult(discarded=True)
    if d.get("previous"):
        # an earlier export of another description into the same directory, in its own process; the directory is kept
        labels.append("export-into-existing-project")
        keep = tempfile.mkdtemp(prefix="vt-")
        try:
            prev = call("vtlib.checks.c20", "run_export", {"desc": dict(d["previous"], spacing=d["spacing"]), "root": keep})
            res = call("vtlib.checks.c20", "run_export", {"desc": d, "root": keep}) if "raised" not in prev else call("vtlib.checks.c20", "run_export", {"desc": d})
        finally:
            shutil.rmtree(keep, ignore_errors=True)
    else:
        res = call("vtlib.checks.c20", "run_export", {"desc": d, "rerender": True})
    if "raised" in res:
        failures.append((f"export/raises/{res['raised'].split(':')[0]}", res["raised"]))
        return CaseResult(failures, True, labels, sample={"rate_mod": d["rate_mod"]})
    cfg = tomlkit.parse(res["config"])
    ch = cfg["chemistry"]
    om = {}
    for t, f, deps in d["ode_mod_terms"]:
        ent = om.setdefault(t, {"factors": [], "reactants": []})
        ent["factors"].append(f)
        ent["reactants"].append(list(deps))
    # export writes the species under their renamed symbols (HE -> He); a self-consistent project therefore lists the
    # symbols renamed as well (the table has been applied) - judged for real by the re-rendering below
    rn = lambda xs: [d["replacement"].get(x, x) for x in xs]
    want = {
        "symbol.surface": d["surface"], "symbol.bulk": d["bulk"], "element.elements": rn(d["elements"]), "element.pseudo_elements": rn(d["pseudo"]),
        "species.allowed": list(d["allowed"]), "species.required": list(d["required"]), "grain.model": d["grain_model"], "thermal.cooling": list(d["cooling"]),
        "shielding": dict(d["shielding"]), "rate_modifier": {str(k): str(v) for k, v in d["rate_mod"].items()}, "ode_modifier": om,
        "solver": [d["backend"][0], d["backend"][2], d["backend"][1]],
    }
    got = {
        "symbol.surface": str(ch["symbol"]["surface"]), "symbol.bulk": str(ch["symbol"]["bulk"]), "element.elements": [str(x) for x in ch["element"]["elements"]],
        "element.pseudo_elements": [str(x) for x in ch["element"]["pseudo_elements"]], "species.allowed": [str(x) for x in ch["species"]["allowed"]],
        "species.required": [str(x) for x in ch["species"]["required"]], "grain.model": str(ch["grain"]["model"]), "thermal.cooling": [str(x) for x in ch["thermal"]["cooling"]],
        "shielding": {str(k): str(v) for k, v in ch["shielding"].items()}, "rate_modifier": {str(k): str(v) for k, v in ch["rate_modifier"].items()},
        "ode_modifier": {str(k): {"factors": [str(x) for x in v["factors"]], "reactants": [[str(y) for y in x] for x in v["reactants"]]} for k, v in ch["ode_modifier"].items()},
        "solver": [str(cfg["ODEsolver"]["solver"]), str(cfg["ODEsolver"]["device"]), str(cfg["ODEsolver"]["method"])],
    }
    for key, w in want.items():
        if got[key] != w:
            failures.append((f"export/field/{key}", f"exported naunet_config.toml: {key} = {got[key]!r} but the network was built with {w!r}"))
    # the exported project, rendered by `naunet render` from its own files, is the network that export() rendered
    if "cli" in res and not failures:
        labels.append("export-rerendered")
        tag = "/replacement" if d["replacement"] else "/non-default-surface-prefix" if d["surface"] != "#" else ""
        if "raised" in res["cli"]:
            why = res["cli"]["raised"]
            if why.startswith("AttributeError@") and "grain.py" in why.split(":")[0] and "SimpleNamespace" in why:
                # the native reaction class does not register the symbols (zism, H2 formation rate, ...) the dust model reads
                # from the reaction: the exported project has lost the source format's reaction class
                key = "export/rerender-raises/grain-model-needs-symbols-of-the-source-format"
            elif d["fmt"] == "krome" and "Unknown reaction type 999" in why:
                # reactions.naunet has no column for a KROME rate expression: the exported file holds type 999 and alpha = 0
                key = "export/rerender-raises/krome-rate-expression-not-in-native-file"
            elif d["surface"] != "#" and "unrecognizable" in why:
                key = "export/rerender-raises/non-default-surface-prefix"
            else:
                key = f"export/rerender-raises{tag}/{why.split(':')[0]}"
            failures.append((key, f"`naunet render` in the exported project: {why}"))
        elif res["cli"]["meaning"] != res["api_meaning"]:
            a, b = res["api_meaning"], res["cli"]["meaning"]
            what = "sizes" if a["sizes"] != b["sizes"] else "index-table" if a["idx"] != b["idx"] else "right-hand-side" if a["fex"] != b["fex"] else "rate-statements"
            fld = {"sizes": "sizes", "index-table": "idx", "right-hand-side": "fex", "rate-statements": "rates"}[what]
            av, bv = a[fld], b[fld]
            if what == "rate-statements":
                pairs = [(x, y) for x, y in zip(av, bv) if x != y]
                av, bv = (pairs[0][0], pairs[0][1]) if pairs else (av, bv)
            failures.append((f"export/rerender-differs{tag}/{what}", f"`naunet render` in the exported project gives another {what}: {str(bv)[:200]} vs {str(av)[:200]} rendered by export()"))
    # user-given binding energies / yields must be in the exported tables (the export lists every ice species)
    for k, v in d["binding"].items():
        if float(ch["species"]["binding_energy"].get(k, float("nan"))) != float(v):
            failures.append(("export/field/species.binding_energy", f"binding energy of {k}: exported {ch['species']['binding_energy'].get(k)} but configured {v}"))
    return CaseResult(failures, bool(d["rate_mod"] or d["ode_mod_terms"] or d["binding"]), labels, sample={"rate_mod": d["rate_mod"], "ode_mod": d["ode_mod_terms"]})


def check_case(case, tier):
    import tomlkit
    from ..proc.call import call

    if case.get("kind") == "example":
        return check_example(case)
    if case.get("kind") == "export":
        return check_export(case)
    d = case
    failures = []
    labels = [f"fmt-{d['fmt']}", f"method-{d['backend'][1]}"]
    for k in ("replacement", "binding", "yields", "shielding", "rate_mod"):
        if d[k]:
            labels.append(f"table-{k}")
    if d["ode_mod_terms"]:
        labels.append(f"ode-modifier-{d['ode_split']}")
    if d.get("has_excited"):
        labels.append("modifier-over-an-excited-species")
    if d["ode_split"] == "one-per-term" and len({t[0] for t in d["ode_mod_terms"]}) < len(d["ode_mod_terms"]):
        labels.append("same-species-in-two-ode-modifier-options")
    if d["bulk"] != "@":
        labels.append("non-default-bulk-prefix")
    if any(d["spacing"].values()):
        labels.append("blanks-after-separators")
    opts = option_string(d)
    api = call("vtlib.checks.c20", "run_api", {"desc": d})
    if "raised" in api:
        return CaseResult(discarded=True)  # the description itself is refused by the API: outside the domain
    res = call("vtlib.checks.c20", "run_init", {"desc": d, "options": opts})
    spaced = "/blanks" if any(d["spacing"].values()) else ""
    comma_value = any("," in str(v) for v in d["rate_mod"].values())
    if any(":" in str(v) or "," in str(v) for v in d["rate_mod"].values()):
        labels.append("rate-modifier-value-with-separator")
    if "raised" in res and comma_value:
        # 'idx:value,idx:value' is the option's multi-value form: a value containing a comma is refused (loudly), not accepted
        return CaseResult([], False, labels + ["refused/comma-in-rate-modifier-value"], sample={"options": opts[:600]})
    if "raised" in res:
        failures.append((f"config/init-raises/{res['raised'].split(':')[0]}{spaced}", f"naunet init {opts[:300]} ... -> {res['raised']}"))
    elif res["config"] is None:
        failures.append(("config/no-config-written", f"status {res['status']}: {res['err']}"))
    else:
        cfg = tomlkit.parse(res["config"])
        ch = cfg["chemistry"]
        got = {
            "general.name": str(cfg["general"]["name"]),
            "general.description": str(cfg["general"]["description"]),
            "symbol.grain": str(ch["symbol"]["grain"]),
            "symbol.surface": str(ch["symbol"]["surface"]),
            "symbol.bulk": str(ch["symbol"]["bulk"]),
            "element.elements": [str(x) for x in ch["element"]["elements"]],
            "element.pseudo_elements": [str(x) for x in ch["element"]["pseudo_elements"]],
            "element.replacement": {str(k): str(v) for k, v in ch["element"]["replacement"].items()},
            "species.allowed": [str(x) for x in ch["species"]["allowed"]],
            "species.required": [str(x) for x in ch["species"]["required"]],
            "species.binding_energy": {str(k): float(v) for k, v in ch["species"]["binding_energy"].items()},
            "species.photon_yield": {str(k): float(v) for k, v in ch["species"]["photon_yield"].items()},
            "grain.model": str(ch["grain"]["model"]),
            "network.files": [str(x) for x in ch["network"]["files"]],
            "network.formats": [str(x) for x in ch["network"]["formats"]],
            "thermal.cooling": [str(x) for x in ch["thermal"]["cooling"]],
            "shielding": {str(k): str(v) for k, v in ch["shielding"].items()},
            "rate_modifier": {str(k): str(v) for k, v in ch["rate_modifier"].items()},
            "ode_modifier": {str(k): {"factors": [str(x) for x in v["factors"]], "reactants": [[str(y) for y in x] for x in v["reactants"]]} for k, v in ch["ode_modifier"].items()},
            "solver": [str(cfg["ODEsolver"]["solver"]), str(cfg["ODEsolver"]["device"]), str(cfg["ODEsolver"]["method"])],
        }
        want = requested(d)
        for key in want:
            if got[key] != want[key]:
                failures.append((f"config/field/{key}{spaced if isinstance(want[key], (dict, list)) else ''}", f"{key}: configured {got[key]!r} but requested {want[key]!r}"))
        if not failures:
            if res["status"] != 0 or not res["tree"]:
                failures.append(("config/render-failed", f"init --render status {res['status']}: {res['err']}"))
            elif res["tree"] != api["tree"]:
                diff = sorted(k for k in set(res["tree"]) | set(api["tree"]) if res["tree"].get(k) != api["tree"].get(k))
                failures.append((f"config/sources-differ/{diff[0].split('/')[-1]}", f"files differing between `init --render` and the API rendering: {diff[:5]}"))
    nontrivial = any(d[k] for k in ("replacement", "binding", "yields", "shielding", "rate_mod")) or bool(d["ode_mod_terms"]) or len(d["allowed"]) >= 2
    sample = {"options": opts[:600]}
    return CaseResult(failures, nontrivial, labels, sample=sample)
