"""C09 — one index per species: identifiers valid, unique and consistent everywhere."""
from __future__ import annotations
import os
import re

from hypothesis import strategies as st

from ..gen import model as M
from ..runner import CaseResult
from .. import netcase as N
from ..ctext.extract import BACKENDS

PROPERTY = "C09"
LEVEL = "exploration"
TECHNIQUE = "property-based testing (Hypothesis): generated networks with naming stress (multiple charges, labels, surface prefixes, grains, excited species, upper-case lists with replacement, double spellings); oracle = bijection / identifier-legality / cross-artefact agreement predicates over macros.h, constant_indexes.py, the config summary and the Enzo patch header"
RULE = (
    "Generated networks with charged species up to +-4, o/p/m labels, ice species, grains, excited / cyclic labels "
    "(H2*, c-C3H2; low weight), the upper-case UCLCHEM-style symbol lists with the replacement table, and two "
    "spellings of the electron in one network; rendered for the four back-ends, exported (Network.export) and "
    "patched (EnzoPatch). Oracle: the raw '#define IDX_*' lines of naunet_macros.h are legal identifiers with a "
    "single integer body, pairwise distinct, and map one-to-one onto 0..NSPECIES-1 (IDX_ELEM_* onto "
    "0..NELEMENTS-1); the number of slots equals the number of distinct abstract species (generator-side "
    "identity); constant_indexes.py (executed in an empty namespace) defines the same names with the same values; "
    "[summary] of naunet_config.toml has the same counts and the same species / alias order; naunet_enzo.h has one "
    "A_<alias> per species and A_Table in slot order; the patch's typedefs.h appends one distinct, legal field constant per species "
    "Enzo does not know, numbered 104.. with FieldUndefined after the last, and Grid_IdentifyNaunetSpeciesFields.C looks up one declared, "
    "unshared field per species; every IDX_ macro the generated sources subscript with is declared by naunet_macros.h; all four back-ends agree. Non-trivial = network has a double "
    "spelling, |charge| >= 2, a label, a grain, an excited species or a replacement."
)
ASSUMPTIONS = [
    "identity of a species is the generator's (composition tokens, charge, phase, label, group)",
    "labelled *atoms* (oH) are not generated: an 'ortho atom' is not a species anybody writes",
]
IDENT = re.compile(r"^[A-Za-z_][A-Za-z0-9_]*$")
UPPER = dict(
    elements=["E", "H", "D", "HE", "C", "N", "O", "MG", "SI", "S", "CL"],
    pseudo=["CR", "CRP", "PHOTON", "CRPHOT"],
    replacement={"E": "e", "HE": "He", "MG": "Mg", "SI": "Si", "CL": "Cl"},
)


def budget(tier):
    if tier == "quick":
        return dict(examples=25, shards=16, shrink_calls=60)
    return dict(examples=300, shards=16, shrink_calls=1000)


@st.composite
def _case(draw):
    mode = draw(st.sampled_from(["default", "default", "default", "upper"]))
    if mode == "upper":
        elems = [e for e in UPPER["elements"] if e != "E"]
        pool = []
        seen = set()
        n = draw(st.integers(3, 9))
        while len(pool) < n:
            sp = draw(M.gas_molecule(elems, max_tokens=3, allow_label=False, charges=(0, 0, 1, -1, 2)))
            if draw(st.integers(0, 4)) == 0:
                sp["s"] = True
                sp["q"] = 0
                sp["t"] = [list(t) for t in draw(st.sampled_from([[["H", 2], ["O", 1]], [["C", 1], ["O", 1]], [["H", 1]], [["SI", 1], ["O", 1]], [["MG", 1]]]))]
            if M.identity(sp) not in seen:
                seen.add(M.identity(sp))
                pool.append(sp)
        # every real network carries the atoms of its elements and their ions
        for sym in draw(st.lists(st.sampled_from(elems), min_size=2, max_size=5, unique=True)):
            for q in draw(st.lists(st.sampled_from([0, 1, 2, -1]), min_size=1, max_size=3, unique=True)):
                sp = {"k": "mol", "t": [[sym, 1]], "q": q, "s": False, "l": ""}
                if M.identity(sp) not in seen:
                    seen.add(M.identity(sp))
                    pool.append(sp)
        if draw(st.booleans()):
            pool.append({"k": "e"})
        eletter = "E-"
    else:
        pool = draw(M.species_pool(min_size=3, max_size=10))
        # naming stress: extra charge states of an existing molecule, labels, excited species
        extra = []
        for sp in pool[:3]:
            if sp["k"] == "mol" and not sp.get("s") and draw(st.booleans()):
                extra.append(dict(sp, q=draw(st.sampled_from([1, 2, 3, 4, -1, -2])), t=[list(t) for t in sp["t"]]))
        if draw(st.integers(0, 9)) == 0:
            extra.append({"k": "mol", "t": [["H", 2]], "q": 0, "s": False, "l": "", "x": draw(st.sampled_from(["*", "c-", "l-"]))})
        for sym in draw(st.lists(st.sampled_from(M.GAS_ELEMENTS), min_size=1, max_size=4, unique=True)):
            for q in draw(st.lists(st.sampled_from([0, 1, 2, -1, -2, -3]), min_size=1, max_size=4, unique=True)):
                extra.append({"k": "mol", "t": [[sym, 1]], "q": q, "s": False, "l": ""})
        if draw(st.integers(0, 3)) == 0:
            # a full ladder of charge states of one carrier (grain charging, PAH / carbon-chain anions): X++ ... X---
            carrier = draw(st.sampled_from([[["C", 6]], [["C", 60]], [["H", 1]], [["O", 2]]]))
            for q in range(draw(st.integers(-3, -1)), draw(st.integers(0, 2)) + 1):
                extra.append({"k": "mol", "t": [list(t) for t in carrier], "q": q, "s": False, "l": ""})
        if any(sp["k"] == "grain" for sp in pool) and not any(sp.get("s") for sp in pool) and draw(st.integers(0, 1)) == 0:
            # dust of a second size group next to group 0 (GRAIN0, GRAIN1): grains are tracked as "elements" too
            extra.append({"k": "grain", "g": 1, "q": 0})
        seen = {M.identity(s) for s in pool}
        for sp in extra:
            if M.identity(sp) not in seen or sp.get("x"):
                seen.add(M.identity(sp))
                pool.append(sp)
        eletter = draw(st.sampled_from(["e-", "E"]))
    nre = draw(st.integers(1, 8))
    reacs = [draw(M.reaction(len(pool), types=[100], allow_pseudo=False)) for _ in range(nre)]
    for rc in reacs:
        if any(pool[i]["k"] == "e" for i in rc["r"] + rc["p"]) and mode == "default" and draw(st.integers(0, 2)) == 0:
            rc["ealt"] = True
    used = {i for rc in reacs for i in rc["r"] + rc["p"]}
    case = {"mode": mode, "pool": pool, "reactions": reacs, "required": [i for i in range(len(pool)) if i not in used and draw(st.booleans())], "eletter": eletter,
            "cooling": [], "heating": [], "ode_mod": [], "grain_spelling": draw(st.sampled_from(["GRAIN0", "GRAIN0", "GRAIN0", "mixed"])),
            "req_route": draw(st.sampled_from(["constructor", "constructor", "setter-after-read"]))}
    # the extra-species list is free text of the user: a species may be named twice, under two spellings (e- / E), or
    # although it reacts
    if case["required"] and draw(st.integers(0, 3)) == 0:
        case["required"].append(case["required"][0])
    if used and draw(st.integers(0, 3)) == 0:
        case["required"].append(draw(st.sampled_from(sorted(used))))
    if mode == "default" and draw(st.integers(0, 4)) == 0:
        ei = next((i for i, sp in enumerate(pool) if sp["k"] == "e"), None)
        if ei is None:
            pool.append({"k": "e"})
            ei = len(pool) - 1
        case["required"] += [ei, ei]
        case["req_e_both"] = True
    return case


def strategy(tier):
    return _case()


def fixed_cases(tier):
    return []


def spell(case, sp):
    if sp.get("x"):
        body = "".join(sym + (str(n) if n != 1 else "") for sym, n in sp["t"])
        return f"{sp['x']}{body}" if sp["x"] in ("c-", "l-") else f"{body}{sp['x']}"
    return M.spell(sp, eletter=case["eletter"])


def make_network(case, reacs, names, kw):
    from naunet.network import Network

    req = []
    ne = 0
    for i in case["required"]:
        if case.get("req_e_both") and case["pool"][i]["k"] == "e":
            req.append(("e-", "E")[ne % 2])  # the same electron under both spellings
            ne += 1
        else:
            req.append(names[i])
    if case.get("req_route") == "setter-after-read" and req:
        # the extra species are declared after the network has been looked at (species / elements already read once)
        net = Network(reactions=reacs, **kw)
        _ = [s.alias for s in net.species]
        _ = [e.name for e in net.elements]
        net.required_species = req
        return net
    return Network(reactions=reacs, required_species=req, **kw)


GRACKLE = [("e",), ("mol", (("H", 1),), 0), ("mol", (("H", 1),), 1), ("mol", (("He", 1),), 0), ("mol", (("He", 1),), 1), ("mol", (("He", 1),), 2), ("mol", (("H", 1),), -1),
           ("mol", (("H", 2),), 0), ("mol", (("H", 2),), 1), ("mol", (("D", 1),), 0), ("mol", (("D", 1),), 1), ("mol", (("H", 1), ("D", 1)), 0)]


def grackle_key(sp, replacement):
    if sp["k"] == "e":
        return ("e",)
    if sp["k"] != "mol" or sp.get("s") or sp.get("l") or sp.get("x"):
        return None
    return ("mol", tuple((replacement.get(a, a), n) for a, n in sp["t"]), sp.get("q", 0))


def order_in_fresh_process(case):
    """Runs in a new interpreter (other PYTHONHASHSEED): species order as the Enzo patch command would see it."""
    import tempfile, shutil
    from pathlib import Path
    from naunet.species import Species
    from naunet.network import Network
    from naunet.reactions.reaction import Reaction
    from naunet.reactiontype import ReactionType
    from naunet.patches import EnzoPatch

    kw = {}
    if case["mode"] == "upper":
        Species._replacement = dict(UPPER["replacement"])
        Species.set_known_elements(list(UPPER["elements"]))
        Species.set_known_pseudoelements(list(UPPER["pseudo"]))
        kw = dict(elements=list(UPPER["elements"]), pseudo_elements=list(UPPER["pseudo"]))
    pool = case["pool"]
    names = [spell(case, sp) for sp in pool]
    reacs = []
    for k, rc in enumerate(case["reactions"]):
        nm = list(names)
        if rc.get("ealt"):
            alt = "E" if case["eletter"] == "e-" else "e-"
            nm = [alt if sp["k"] == "e" else n for sp, n in zip(pool, nm)]
        if case.get("grain_spelling") == "mixed" and k % 2 == 1:
            nm = [n.replace("GRAIN0", "GRAIN") if sp["k"] == "grain" else n for sp, n in zip(pool, nm)]
        reacs.append(Reaction([nm[i] for i in rc["r"]], [nm[i] for i in rc["p"]], alpha=1e-10, reaction_type=ReactionType(100), idxfromfile=k))
    net = make_network(case, reacs, names, kw)
    d = Path(tempfile.mkdtemp(prefix="vt-"))
    try:
        EnzoPatch("cpu").render(net, templates=["naunet_enzo.h.j2"], path=d)
        txt = (d / "naunet_enzo.h").read_text()
    finally:
        shutil.rmtree(d, ignore_errors=True)
    m = re.search(r"A_Table\[NSPECIES\]\s*=\s*\{(.*?)\};", txt, re.S)
    table = [t.strip() for t in m.group(1).split(",") if t.strip()] if m else []
    return {"table": table, "species": [s.name for s in net.species]}


def check_case(case, tier):
    from naunet.species import Species
    from naunet.network import Network
    from naunet.reactions.reaction import Reaction
    from naunet.reactiontype import ReactionType
    import tomlkit

    N.reset_naunet_state()
    failures = []
    labels = [f"mode-{case['mode']}"]
    kw = {}
    if case["mode"] == "upper":  # (same steps as build_only below)
        Species._replacement = dict(UPPER["replacement"])
        Species.set_known_elements(list(UPPER["elements"]))
        Species.set_known_pseudoelements(list(UPPER["pseudo"]))
        kw = dict(elements=list(UPPER["elements"]), pseudo_elements=list(UPPER["pseudo"]))
        labels.append("replacement")
    pool = case["pool"]
    names = [spell(case, sp) for sp in pool]
    reacs = []
    mixed_grain = case.get("grain_spelling") == "mixed"
    for k, rc in enumerate(case["reactions"]):
        nm = list(names)
        if rc.get("ealt"):
            alt = "E" if case["eletter"] == "e-" else "e-"
            nm = [alt if sp["k"] == "e" else n for sp, n in zip(pool, nm)]
        if mixed_grain and k % 2 == 1:
            nm = [n.replace("GRAIN0", "GRAIN") if sp["k"] == "grain" else n for sp, n in zip(pool, nm)]
        reacs.append(Reaction([nm[i] for i in rc["r"]], [nm[i] for i in rc["p"]], alpha=1e-10, reaction_type=ReactionType(100), idxfromfile=k))
    present = sorted({i for rc in case["reactions"] for i in rc["r"] + rc["p"]} | set(case["required"]))
    nident = len({M.identity(pool[i]) if not pool[i].get("x") else ("x", pool[i]["x"], tuple(map(tuple, pool[i]["t"]))) for i in present})
    feats = set()
    for i in present:
        sp = pool[i]
        if sp.get("x"):
            feats.add("excited-or-cyclic:" + sp["x"])
        if abs(sp.get("q", 0)) >= 2:
            feats.add("charge>=2")
        if sp.get("l"):
            feats.add("label")
        if sp["k"] == "grain":
            feats.add("grain")
        if sp.get("s"):
            feats.add("ice")
    if any(rc.get("ealt") for rc in case["reactions"]):
        feats.add("double-electron-spelling")
    if mixed_grain and any(pool[i]["k"] == "grain" for i in present):
        feats.add("double-grain-spelling")
    if len({pool[i].get("g", 0) for i in present if pool[i]["k"] == "grain"}) >= 2:
        feats.add("multi-group-grains")
    suffix = "/" + sorted(f for f in feats if f.startswith(("excited", "double-grain", "multi-group")))[0] if any(f.startswith(("excited", "double-grain", "multi-group")) for f in feats) else ""
    with N.Scratch() as d:
        try:
            net = make_network(case, reacs, names, kw)
            projs = N.render(net, d, templates="all")
        except Exception as e:
            import traceback

            tb = traceback.extract_tb(e.__traceback__)
            where = next((f"{fr.filename.split('/')[-1]}:{fr.name}" for fr in reversed(tb) if "/naunet/" in fr.filename), "?")
            failures.append((f"index/render-raises/{type(e).__name__}@{where}{suffix}", f"{type(e).__name__}: {e}"))
            return CaseResult(failures, bool(feats), labels + sorted(feats), sample={"species": names})
        ref_order = None
        for method, proj in projs.items():
            raw = (proj.path / "include" / "naunet_macros.h").read_text()
            defs = re.findall(r"^#define[ \t]+(IDX_[^\s]*)[ \t]*(.*)$", raw, re.M)
            spec = [(n, v) for n, v in defs if not n.startswith("IDX_ELEM_") and n != "IDX_TGAS"]
            elem = [(n, v) for n, v in defs if n.startswith("IDX_ELEM_")]
            for group, count_macro, what in ((spec, "NSPECIES", "species"), (elem, "NELEMENTS", "elements")):
                bad = [n for n, v in group if not IDENT.match(n) or not re.fullmatch(r"\d+", v.strip())]
                if bad:
                    failures.append((f"index/illegal-identifier{suffix}", f"{method}: macro(s) {bad[:3]} are not 'identifier integer' definitions"))
                    continue
                namesg = [n for n, _ in group]
                if len(set(namesg)) != len(namesg):
                    dup = sorted({n for n in namesg if namesg.count(n) > 1})
                    sfx = "/multi-group-grains" if what == "elements" and "multi-group-grains" in feats and all("GRAIN" in n for n in dup) else suffix
                    failures.append((f"index/duplicate-identifier/{what}{sfx}", f"{method}: {dup[:3]} defined more than once"))
                    continue
                vals = sorted(int(v) for _, v in group)
                n_decl = proj.ints.get(count_macro)
                if vals != list(range(len(vals))) or n_decl != len(vals):
                    failures.append((f"index/not-a-bijection/{what}{suffix}", f"{method}: values {vals[:8]} with {count_macro}={n_decl}"))
            if failures:
                break
            if len(spec) != nident:
                failures.append((f"index/slot-count{suffix}", f"{method}: {len(spec)} species slots for {nident} distinct species ({sorted(n for n, _ in spec)})"))
                break
            # the same identifiers everywhere: every IDX_ macro a generated source subscripts with is one naunet_macros.h declares
            declared = {n for n, _ in defs}
            for srcf in sorted((proj.path / "src").glob("naunet_*.c*")):
                used = set(re.findall(r"\bIDX_\w+", re.sub(r"//[^\n]*|/\*.*?\*/", "", srcf.read_text(), flags=re.S)))
                # (#ifdef IDX_... guards of the fixed helper code name species the network need not have)
                guarded = set(re.findall(r"^[ \t]*#[ \t]*(?:ifdef|ifndef|if[ \t]+defined\(?)[ \t]*(IDX_\w+)", srcf.read_text(), re.M))
                stray = sorted(used - declared - guarded)
                if stray:
                    failures.append((f"index/source-uses-undeclared-macro{suffix}", f"{method}/{srcf.name}: {stray[:4]} used but naunet_macros.h declares {sorted(declared)[:6]}..."))
                    break
            if failures:
                break
            order = [n for n, _ in sorted(spec, key=lambda t: int(t[1]))]
            # python constants
            pyf = proj.path / "python" / "pynaunet_model" / "constant_indexes.py"
            ns = {}
            try:
                exec(compile(pyf.read_text(), str(pyf), "exec"), {"__builtins__": {}}, ns)
            except SyntaxError as e:
                failures.append((f"index/python-constants-invalid{suffix}", f"{method}: constant_indexes.py: {e}"))
                break
            want = {n: int(v) for n, v in spec + elem}
            if ns != want:
                diff = sorted(set(ns.items()) ^ set(want.items()))[:4]
                failures.append((f"index/python-constants-differ{suffix}", f"{method}: {diff}"))
            if ref_order is None:
                ref_order = (method, order, [n for n, _ in sorted(elem, key=lambda t: int(t[1]))])
            elif (order, [n for n, _ in sorted(elem, key=lambda t: int(t[1]))]) != ref_order[1:]:
                failures.append((f"index/backends-disagree{suffix}", f"{method} order {order[:6]} vs {ref_order[0]} {ref_order[1][:6]}"))
        if not failures and ref_order is not None:
            # export summary
            cwd = os.getcwd()
            try:
                os.chdir(d)
                net.export("vtexp", solver="cvode", method="dense", device="cpu", prefix=str(d), overwrite=True)
                summ = tomlkit.parse((d / "vtexp" / "naunet_config.toml").read_text())["summary"]
                alias = ["IDX_" + a for a in summ["list_of_species_alias"]]
                if alias != ref_order[1] or int(summ["num_of_species"]) != len(ref_order[1]) or len(summ["list_of_species"]) != len(ref_order[1]):
                    failures.append((f"index/config-summary-species{suffix}", f"summary aliases {alias[:6]} (n={summ['num_of_species']}) vs macros {ref_order[1][:6]}"))
                if int(summ["num_of_elements"]) != len(ref_order[2]) or len(summ["list_of_elements"]) != len(ref_order[2]):
                    failures.append((f"index/config-summary-elements{suffix}", f"summary elements {list(summ['list_of_elements'])} vs macros {ref_order[2]}"))
                # the per-class counts and lists of the summary against the Python constants module export() rendered next to it
                cpy = d / "vtexp" / "python" / "pynaunet_model" / "constants.py"
                cns = {}
                exec(compile(cpy.read_text(), str(cpy), "exec"), {"__builtins__": {}, "True": True, "False": False}, cns)
                for skey, nkey, lkey in (("gas_species", "NGAS", "ALL_GAS_SPECIES"), ("ice_species", "NICE", "ALL_ICE_SPECIES"), ("grain_species", "NGRAIN", "ALL_GRAIN_SPECIES")):
                    if nkey in cns and (int(summ[f"num_of_{skey}"]) != cns[nkey] or (lkey in cns and sorted(summ[f"list_of_{skey}"]) != sorted(cns[lkey]))):
                        failures.append((f"index/config-summary-{skey.replace('_', '-')}{suffix}", f"[summary] num_of_{skey} = {summ[f'num_of_{skey}']} {list(summ[f'list_of_{skey}'])[:5]} but constants.py has {nkey} = {cns[nkey]} {cns.get(lkey, [])[:5]}"))
            except Exception as e:
                import traceback

                tb = traceback.extract_tb(e.__traceback__)
                where = next((f"{fr.filename.split('/')[-1]}:{fr.name}" for fr in reversed(tb) if "/naunet/" in fr.filename), "?")
                failures.append((f"index/export-raises/{type(e).__name__}@{where}{suffix}", f"{type(e).__name__}: {e}"))
            finally:
                os.chdir(cwd)
            # Enzo patch header
            try:
                from naunet.patches import EnzoPatch

                pd = d / "enzo"
                pd.mkdir()
                EnzoPatch("cpu").render(net, templates=["naunet_enzo.h.j2"], path=pd)
                txt = (pd / "naunet_enzo.h").read_text()
                adefs = re.findall(r"^#define[ \t]+(A_[^\s]*)[ \t]*(.*)$", txt, re.M)
                badn = [n for n, v in adefs if not IDENT.match(n)]
                if badn:
                    failures.append((f"index/enzo-illegal-identifier{suffix}", f"naunet_enzo.h: {badn[:3]}"))
                m = re.search(r"A_Table\[NSPECIES\]\s*=\s*\{(.*?)\};", txt, re.S)
                table = [t.strip() for t in m.group(1).split(",") if t.strip()] if m else None
                want_t = ["A_" + n[4:] for n in ref_order[1]]
                if table != want_t:
                    failures.append((f"index/enzo-table-order{suffix}", f"A_Table {table[:6] if table else None} vs slot order {want_t[:6]}"))
                if len(set(n for n, _ in adefs)) != len(adefs):
                    failures.append((f"index/enzo-duplicate{suffix}", "A_<alias> defined twice"))
                # the number of Enzo species fields: network species + Grackle's own twelve - those both have - the electron
                mm = re.search(r"^#define[ \t]+ENZO_NSPECIES[ \t]+(\d+)", txt, re.M)
                rep = UPPER["replacement"] if case["mode"] == "upper" else {}
                keys = {grackle_key(pool[i], rep) for i in present}
                both = len([g for g in GRACKLE if g in keys])
                want_n = nident + len(GRACKLE) - both - 1
                if mm is None or int(mm.group(1)) != want_n:
                    failures.append((f"index/enzo-nspecies{suffix}", f"ENZO_NSPECIES = {mm.group(1) if mm else None} but network ({nident}) + grackle (12) - shared ({both}) - electron = {want_n}"))
                # the per-species field tables of the patch: typedefs.h appends one enumerator per species Enzo does not know to
                # `enum field_type`; Grid_IdentifyNaunetSpeciesFields.C looks every species' field up by that enumerator
                EnzoPatch("cpu").render(net, templates=["typedefs.h.j2", "Grid_IdentifyNaunetSpeciesFields.C.j2"], path=pd)
                tdef = (pd / "typedefs.h").read_text()
                # `const field_type Density = 0, ..., FieldUndefined = N;` - the USE_NAUNET branch of the conditional
                enum_m = re.search(r"const\s+field_type\s(.*?)#else", tdef, re.S)
                enum_body = re.sub(r"/\*.*?\*/|//[^\n]*", "", enum_m.group(1), flags=re.S) if enum_m else ""
                enum_body = re.sub(r"^[ \t]*#[^\n]*$", "", enum_body, flags=re.M)
                fields = [(a, int(b)) for a, b in re.findall(r"(\S+?)\s*=\s*(\d+)\s*[,;]", enum_body)]
                added = [(a, b) for a, b in fields if b >= 104 and a != "FieldUndefined"]
                undefined = dict(fields).get("FieldUndefined")
                badf = [a for a, _ in added if not IDENT.match(a)]
                if badf:
                    failures.append((f"index/enzo-fields/illegal-identifier{suffix}", f"typedefs.h: {badf[:3]}"))
                vals = [b for _, b in added]
                if sorted(vals) != list(range(104, 104 + len(vals))) or undefined != 104 + len(vals):
                    failures.append((f"index/enzo-fields/numbering{suffix}", f"typedefs.h: fields appended to the field_type constants are numbered {added[:8]} with FieldUndefined = {undefined}: not one number each from 104 on"))
                allnames = [a for a, _ in fields]
                if len(set(allnames)) != len(allnames):
                    dup = sorted({a for a in allnames if allnames.count(a) > 1})
                    failures.append((f"index/enzo-fields/duplicate-enumerator{suffix}", f"typedefs.h: {dup[:3]} declared twice among the field_type constants"))
                ident_c = (pd / "Grid_IdentifyNaunetSpeciesFields.C").read_text()
                looked = [x for x in re.findall(r"FindField\(\s*(\S+?)\s*,", ident_c) if "[" not in x]  # (not the loop over the table below it)
                if len(looked) != nident:
                    failures.append((f"index/enzo-fields/count{suffix}", f"Grid_IdentifyNaunetSpeciesFields.C looks up {len(looked)} fields for {nident} species"))
                missing = [x for x in looked if x not in set(allnames)]
                if missing:
                    failures.append((f"index/enzo-fields/undeclared{suffix}", f"Grid_IdentifyNaunetSpeciesFields.C uses {missing[:3]}, which typedefs.h does not declare"))
                if len(set(looked)) != len(looked):
                    failures.append((f"index/enzo-fields/shared-field{suffix}", f"two species share one field: {sorted({x for x in looked if looked.count(x) > 1})[:3]}"))
                # `naunet render --patch enzo` is a separate invocation: another interpreter, another hash seed
                if not failures:
                    from ..proc.call import call
                    from ..runner import case_hash

                    hs = 1 + int(case_hash(case), 16) % 9973
                    other = call("vtlib.checks.c09", "order_in_fresh_process", case, hashseed=hs)
                    if other["table"] != want_t:
                        failures.append((f"index/order-differs-across-processes{suffix}", f"A_Table rendered in another process (PYTHONHASHSEED={hs}) {other['table'][:6]} vs IDX_ order {want_t[:6]}"))
            except Exception as e:
                import traceback

                tb = traceback.extract_tb(e.__traceback__)
                where = next((f"{fr.filename.split('/')[-1]}:{fr.name}" for fr in reversed(tb) if "/naunet/" in fr.filename), "?")
                failures.append((f"index/enzo-raises/{type(e).__name__}@{where}{suffix}", f"{type(e).__name__}: {e}"))
    return CaseResult(failures, bool(feats) or case["mode"] == "upper", labels + sorted(feats), sample={"species": [names[i] for i in present], "mode": case["mode"]})
