"""C05 — gas-phase rate coefficients follow each database's published rate law."""
from __future__ import annotations
import math
import os
import tempfile

from hypothesis import strategies as st

from ..gen import lines as L
from ..gen import formats as F
from ..runner import CaseResult
from .. import netcase as N
from .. import ratecase as R
from ..ref import laws
from ..ctext.lexer import CInvalidC, CParseError
from ..ctext.interp import UndeclaredSymbol

PROPERTY = "C05"
LEVEL = "exploration"
TECHNIQUE = "property-based testing (Hypothesis): generated reaction lines per (format, code, signed/zero/extreme coefficients), rendered EvalRates text interpreted numerically vs. an independent implementation of the published laws"
RULE = (
    "Per format (KIDA, UMIST, Leeds, UCLCHEM, native) files of 1-40 generated gas-phase lines covering every "
    "formula/code/rtype/keyword with alpha, beta, gamma drawn from {0, +-1, +-integers-as-floats, +-small, +-large, "
    "random}, no temperature window; the network is read through Network(filelist, fileformats), EvalRates is "
    "rendered (cvode and odeint templates) and its text is interpreted with C double semantics at 3 generated "
    "physical points (Tgas 2.7..1e5, Av 0..50, zeta* 1e-19..1e-12, omega 0..0.99, G0 0..1e6). Oracle: independent "
    "implementation of the laws, |k-kref| <= 1e-12*max (inf==inf, nan<->nan); operator fusion such as '--' is "
    "invalid C and a violation; unimplemented laws (KIDA formula 6) must raise at generation. Table-driven helpers "
    "(GetShieldingFactor, GetGrainScattering, GetCharactWavelength) are bound to the same deterministic stubs on "
    "both sides. Non-trivial = a line with a negative or zero coefficient or |coefficient| > 1e100; distinct = sha1 "
    "of the case."
)
ASSUMPTIONS = [
    "helper functions are opaque (same stub on both sides): the structure of the law is compared, not the shielding tables",
    "values are compared as printed in the file (what a faithful decoder recovers, C07's subject)",
    "vtlib.ctext interpreter implements C double semantics through Python's math (libm)",
]

SPECIAL_FIRST = {"leeds": ["H2", "CO", "N2", "H2O", "OH"], "uclchem": ["CO", "H2", "C", "O", "H2O"]}
GAS_CODES = {
    "kida": [1, 2, 3, 3, 4, 5],
    "umist": sorted(F.UMIST_CODE),
    "leeds": [1, 1, 2, 3, 4, 4, 5, 11, 12, 15, 16, 17, 18, 19],
    "uclchem": ["", "", "CRP", "PHOTON", "PHOTON", "CRPHOT"],
    "naunet": [100, 100, 101, 102, 110, 111, 120],
}
COEF = st.one_of(
    st.sampled_from([0.0, 1.0, -1.0, 2.0, -2.0, 300.0, -300.0, 0.5, -0.5, 1e-17, -1e-17, 2.5e-10, 30450.0, -26.5, 1e120, -1e120, 1e-200, 3.0, -3.0]),
    st.floats(min_value=-1e4, max_value=1e4, allow_nan=False).map(lambda x: float(f"{x:.3e}")),
    st.floats(min_value=1e-18, max_value=1e-6).map(lambda x: float(f"{x:.3e}")),
)


def budget(tier):
    if tier == "quick":
        return dict(examples=25, shards=16)
    return dict(examples=600, shards=16, shrink_calls=1500)


@st.composite
def _point(draw):
    lg = lambda lo, hi: st.floats(min_value=math.log10(lo), max_value=math.log10(hi)).map(lambda e: 10.0 ** e)
    return {
        "Tgas": draw(st.one_of(lg(2.7, 1e5), st.sampled_from([10.0, 300.0, 1e4]))),
        "Av": draw(st.one_of(st.floats(min_value=0.0, max_value=50.0), st.sampled_from([0.0, 1.0]))),
        "zeta": draw(lg(1e-19, 1e-12)),
        "zeta_cr": draw(lg(1e-19, 1e-12)),
        "zeta_xr": draw(st.one_of(st.just(0.0), lg(1e-19, 1e-12))),
        "omega": draw(st.floats(min_value=0.0, max_value=0.99)),
        "G0": draw(st.one_of(st.just(0.0), lg(1e-3, 1e6))),
        "nH": draw(lg(1e0, 1e10)),
        "Tdust": draw(lg(5.0, 1e3)),
    }


@st.composite
def _case(draw, nmax=25, fmt=None):
    fmt = fmt or draw(st.sampled_from(["kida", "umist", "leeds", "uclchem", "naunet"]))
    n = draw(st.integers(1, nmax))
    lrs = []
    refused = draw(st.integers(0, 15)) == 0 and fmt == "kida"
    for _ in range(n):
        lr = draw(L.line_reaction(fmt))
        lr["code"] = draw(st.sampled_from(GAS_CODES[fmt]))
        lr["markers_r"] = []
        if fmt == "umist" and lr["code"] in F.UMIST_MARKER:
            lr["r"] = lr["r"][:1]
            lr["markers_r"] = [(1, F.UMIST_MARKER[lr["code"]])]
        if fmt == "uclchem" and lr["code"]:
            lr["r"] = lr["r"][:2]
        lr["a"], lr["b"], lr["c"] = draw(COEF), draw(COEF), draw(COEF)
        if fmt == "leeds":
            lr["a"] = abs(lr["a"]) if 1e-99 < abs(lr["a"]) < 1e99 or lr["a"] == 0 else 1.0e-10
            lr["b"] = max(-9999.0, min(9999.0, lr["b"])) if abs(lr["b"]) >= 0.01 or lr["b"] == 0 else 0.01
            lr["c"] = max(-99999.0, min(99999.0, lr["c"])) if abs(lr["c"]) >= 0.1 or lr["c"] == 0 else 0.1
            if lr["code"] in (11, 12):
                lr["r"] = ["G" + draw(st.sampled_from(["H2", "CO", "N2", "H2O", "CH4"]))]
        if fmt in SPECIAL_FIRST and draw(st.integers(0, 2)) == 0 and lr["code"] not in (11, 12):
            lr["r"][0] = draw(st.sampled_from(SPECIAL_FIRST[fmt]))
        lr["tmin"], lr["tmax"] = (0, 0) if fmt in ("kida", "umist", "leeds") else (0.0, 0.0)
        lrs.append(lr)
    if lrs and draw(st.integers(0, 2)) == 0:
        # the same reaction entered twice with other coefficients (two fits / channels of one reaction, merged databases)
        src = lrs[draw(st.integers(0, len(lrs) - 1))]
        dup = dict(src, r=list(src["r"]), p=list(src["p"]), markers_r=list(src["markers_r"]))
        dup["a"], dup["b"], dup["c"] = draw(COEF), draw(COEF), draw(COEF)
        if fmt == "leeds":
            dup["a"] = abs(dup["a"]) if 1e-99 < abs(dup["a"]) < 1e99 or dup["a"] == 0 else 2.0e-10
            dup["b"] = max(-9999.0, min(9999.0, dup["b"])) if abs(dup["b"]) >= 0.01 or dup["b"] == 0 else 0.01
            dup["c"] = max(-99999.0, min(99999.0, dup["c"])) if abs(dup["c"]) >= 0.1 or dup["c"] == 0 else 0.1
        if fmt != "uclchem":
            dup["idx"] = src["idx"] + 1 if src["idx"] < 99998 else 1
        lrs.append(dup)
    if refused:
        lrs = lrs[:2]
        lrs[0]["code"] = 6
    variant = {"padded": False} if fmt == "naunet" else {}
    case = {"fmt": fmt, "lines": lrs, "variant": variant, "points": [draw(_point()) for _ in range(3)]}
    if draw(st.integers(0, 3)) == 0:
        # the user overrides one reaction with an own rate: every other reaction must keep its database law
        case["override"] = draw(st.integers(0, len(lrs) - 1))
    return case


def strategy(tier):
    return _case(25 if tier == "quick" else 60)


def fixed_cases(tier):
    P = {"Tgas": 10.0, "Av": 1.0, "zeta": 1.3e-17, "zeta_cr": 1.3e-17, "zeta_xr": 0.0, "omega": 0.5, "G0": 1.0, "nH": 1e4, "Tdust": 10.0}
    out = []
    for fmt, code in (("naunet", 100), ("kida", 3), ("umist", "NN"), ("leeds", 1), ("uclchem", "")):
        lr = {"fmt": fmt, "r": ["H", "CH"], "p": ["C", "H2"], "markers_r": [], "a": 1e-10, "b": -0.5, "c": -3.0, "tmin": 0, "tmax": 0, "idx": -1 if fmt == "uclchem" else 7, "code": code}
        out.append({"fmt": fmt, "lines": [lr, dict(lr, c=26.5, b=0.0), dict(lr, a=0.0 if fmt == "leeds" else -1e-10, b=1.0, c=0.0)], "variant": {"padded": False} if fmt == "naunet" else {}, "points": [P, dict(P, Tgas=1e4)]})
    return out


def build_file_network(fmt, lrs, variant, extra_lines=(), **kw):
    from naunet.network import Network

    text = "\n".join(list(extra_lines) + [L.encode(lr, variant) for lr in lrs]) + "\n"
    fd, path = tempfile.mkstemp(prefix="vt-", suffix="." + fmt)
    try:
        with os.fdopen(fd, "w") as f:
            f.write(text)
        return Network(filelist=path, fileformats=fmt, **kw)
    finally:
        os.unlink(path)


def check_case(case, tier):
    N.reset_naunet_state()
    fmt = case["fmt"]
    lrs = case["lines"]
    failures = []
    labels = [f"fmt-{fmt}"]
    extra = []
    if fmt == "uclchem":
        # the UCLCHEM class derives H2shielding from IDX_H2I: keep H2 in the network (C10 covers the closure itself)
        extra = ["H,H,NAN,H2,NAN,NAN,NAN,1e-17,0.0,0.0,0.0,0.0"]
    if fmt == "leeds":
        # surface photoreactions of GH2/GCO/GN2 index the shielding function by the *gas* species: keep them present
        extra = [F.encode_leeds({"r": ["H2", "CO"], "p": ["N2", "H2O"], "a": 1e-10, "b": 0.0, "c": 0.0, "tmin": 0, "tmax": 0, "idx": 1, "code": 1})]
    expect_refusal = any(lr["fmt"] == "kida" and lr["code"] == 6 for lr in lrs)
    with N.Scratch() as d:
        overridden = set()
        try:
            net = build_file_network(fmt, lrs, case.get("variant", {}), extra)
            ov = case.get("override")
            if ov is not None and ov < len(lrs) and not expect_refusal:
                idxs = [r.idxfromfile for r in net.reaction_list]
                if all(i == -1 for i in idxs) or all(i != -1 for i in idxs):
                    key = idxs[ov + len(extra)] if idxs[ov + len(extra)] != -1 else ov + len(extra)
                    net.rate_modifier = {key: "7.5e-13"}
                    overridden = {j for j in range(len(lrs)) if (idxs[j + len(extra)] if idxs[j + len(extra)] != -1 else j + len(extra)) == key}
                    labels.append("one-rate-overridden")
            projs = R.render_rates(net, d)
        except NotImplementedError as e:
            if expect_refusal:
                return CaseResult([], True, labels + ["refused-unimplemented"], sample={"fmt": fmt, "refused": str(e)})
            failures.append(("rate/raises/NotImplementedError", str(e)))
            return CaseResult(failures, True, labels, sample={"fmt": fmt})
        except Exception as e:
            import traceback

            tb = traceback.extract_tb(e.__traceback__)
            where = next((f"{fr.filename.split('/')[-1]}:{fr.name}" for fr in reversed(tb) if "/naunet/" in fr.filename), "?")
            failures.append((f"rate/raises/{type(e).__name__}@{where}", f"{type(e).__name__}: {e}"))
            return CaseResult(failures, True, labels, sample={"fmt": fmt})
        if expect_refusal:
            failures.append(("rate/unimplemented-law-not-refused", "KIDA formula 6 (three-body) was rendered instead of refused"))
        off = len(extra)
        # the compiler is the judge of "valid C": syntax-check the rate translation unit against the API shim
        from ..cxx import build

        for method, proj in list(projs.items())[: (1 if tier == "quick" else 2)]:
            stem = "naunet_ode.cpp" if proj.solver == "odeint" else "naunet_rates.cpp"
            for fname, diags in build.syntax_check(proj.path, files=[stem]):
                failures.append((f"rate/does-not-compile/{fmt}/{build.classify_diag(diags[0])}", f"{method}/{fname}: {diags[0]}"))
        for method, proj in projs.items():
            if proj.nreac != len(lrs) + off:
                failures.append(("rate/nreactions", f"{method}: NREACTIONS={proj.nreac} for {len(lrs) + off} lines"))
                continue
            idx = proj.idx_table()
            for P in case["points"]:
                try:
                    k, _ = R.eval_rates(proj, P)
                except CInvalidC as e:
                    failures.append((f"rate/invalid-c/{fmt}", f"{method}: {e}"))
                    break
                except (UndeclaredSymbol, CParseError) as e:
                    # my reader cannot evaluate it: a violation only if the compiler rejects the translation unit too
                    from ..cxx import build

                    stem = "naunet_ode.cpp" if proj.solver == "odeint" else "naunet_rates.cpp"
                    diags = build.syntax_check(proj.path, files=[stem])
                    if not diags:
                        raise
                    failures.append((f"rate/does-not-compile/{fmt}/{build.classify_diag(diags[0][1][0])}", f"{method}: {diags[0][1][0]}"))
                    break
                for i, lr in enumerate(lrs):
                    if lr["fmt"] == "kida" and lr["code"] == 6:
                        continue
                    pa, pb, pc, _, _ = L.printed_values(lr, case.get("variant", {}))
                    got = k[i + off]
                    if i in overridden:
                        if not R.close(got, 7.5e-13):
                            failures.append(("rate/override-not-applied", f"{method}: k[{i + off}] = {got!r} but this reaction's rate was overridden with 7.5e-13"))
                            break
                        continue
                    ref = laws.gas_rate(dict(lr, pa=pa, pb=pb, pc=pc), P, idx)
                    if not R.close(got, ref):
                        if not (math.isfinite(got) and math.isfinite(ref)) and max(abs(pa), abs(pb), abs(pc)) > 1e100:
                            labels.append("inconclusive-nonfinite-at-extreme")
                            continue
                        failures.append((f"rate/law/{fmt}:{lr['code']}", f"{method}: k[{i + off}] = {got!r} but the {fmt} law for code {lr['code']!r} (a,b,c={pa},{pb},{pc}; first reactant {lr['r'][0]}) gives {ref!r} at T={P['Tgas']:.4g} Av={P['Av']:.3g}"))
                        break
    nontriv = any(min(lr["a"], lr["b"], lr["c"]) <= 0 or max(abs(lr["a"]), abs(lr["b"]), abs(lr["c"])) > 1e100 for lr in lrs)
    for lr in lrs:
        labels.append(f"{fmt}:{lr['code']}")
    labels = sorted(set(labels))
    sample = {"fmt": fmt, "lines": [L.encode(lr, case.get("variant", {})) for lr in lrs[:3]], "n": len(lrs)}
    return CaseResult(failures, nontriv, labels, sample=sample)
