"""C01 — generated ODE right-hand side is the mass-action law of the input network."""
from __future__ import annotations

from hypothesis import strategies as st

from ..gen import model as M
from ..runner import CaseResult
from .. import netcase as N
from ..ctext.extract import BACKENDS, LayoutViolation
from ..ctext.lexer import CInvalidC

PROPERTY = "C01"
LEVEL = "exploration"
RULE = (
    "Hypothesis-generated abstract networks (0-12 reactions over 2-10 species; 1-3 reactants with repetition, "
    "0-5 products, catalysts, pseudo-reactants, duplicates, required-unreacting species, ice/grain/electron species, "
    "synthetic heating/cooling processes; API route and native-file route) rendered for all four back-ends; the "
    "emitted ydot statements are normalised to exact polynomials in k[], kh[], kc[], y[] and compared with the "
    "mass-action polynomial computed from the abstract network. Non-trivial = network has a repeated reactant, "
    ">=3 reactants, a catalyst, a pseudo-reactant, a duplicate reaction or a thermal row; distinct = sha1 of the "
    "canonical JSON of the abstract case."
)
ASSUMPTIONS = [
    "species slots are located through the rendered IDX_<alias> macro (alias naming is C09's subject)",
    "heating processes are injected by patching naunet.network.get_allowed_heating/cooling (upstream ships none)",
    "cuSPARSE back-end observed as kernel text only",
    "vtlib.ctext (my C-subset reader) is trusted; cross-checked against compiled code in the thorough tier of C03",
]


def budget(tier):
    if tier == "quick":
        return dict(examples=30, shards=16)
    return dict(examples=600, shards=16, shrink_calls=2000)


@st.composite
def _case(draw, big=False):
    case = draw(M.network(max_species=25 if big else 10, max_reactions=60 if big else 12, thermal=True, modifiers=False))
    case["route"] = draw(st.sampled_from(["api", "api", "file"]))
    return case


def strategy(tier):
    return _case(big=(tier == "thorough"))


def fixed_cases(tier):
    H = {"k": "mol", "t": [["H", 1]], "q": 0, "s": False, "l": ""}
    H2 = {"k": "mol", "t": [["H", 2]], "q": 0, "s": False, "l": ""}
    Hp = {"k": "mol", "t": [["H", 1]], "q": 1, "s": False, "l": ""}
    e = {"k": "e"}
    He = {"k": "mol", "t": [["He", 1]], "q": 0, "s": False, "l": ""}
    rx = lambda r, p, **kw: dict(dict(r=r, p=p, pseudo=[], type=100, a=1.0, b=0.0, c=0.0, tmin=-1.0, tmax=-1.0, idx=-1), **kw)
    base = dict(pool=[H, H2, Hp, e, He], required=[], eletter="e-", cooling=[], heating=[], ode_mod=[], route="api")
    return [
        dict(base, reactions=[]),  # empty network
        dict(base, reactions=[], required=[4]),  # only an unreacting species
        dict(base, reactions=[rx([0, 0], [1]), rx([1], [0, 0], pseudo=["CR"], type=101), rx([2, 3], [0])], required=[4]),
        dict(base, reactions=[rx([1, 0], [0, 0, 0]), rx([0, 0, 0], [1, 0]), rx([0, 3], [2, 3, 3])]),
        dict(base, reactions=[rx([2, 3], [0])], cooling=[{"r": [0, 3], "rate": "1e-22"}], heating=[{"r": [0, 0], "rate": "2e-22"}], required=[4]),
        dict(base, reactions=[rx([0, 0], [1]), rx([0, 0], [1])], route="file"),
    ]


def build(case):
    """Abstract case -> Network through the chosen route."""
    if case.get("route") == "file":
        # write the reactions in the native exchange format with my own encoder, then read the file
        from ..gen import formats as F

        names = N.names_of(case)
        text = "\n".join(F.encode_naunet(F.from_case_reaction(rc, N.names_for_reaction(case, rc)), padded=False) for rc in case["reactions"]) + "\n"
        import tempfile, os
        from naunet.network import Network

        fd, path = tempfile.mkstemp(prefix="vt-", suffix=".naunet")
        try:
            with os.fdopen(fd, "w") as f:
                f.write(text)
            net = Network(
                filelist=path if case["reactions"] else None,
                fileformats="naunet" if case["reactions"] else None,
                required_species=[names[i] for i in case.get("required", [])],
                heating=[f"VT_H{j}" for j in range(len(case.get("heating", [])))],
                cooling=[f"VT_C{j}" for j in range(len(case.get("cooling", [])))],
                ode_modifier=N.ode_modifier_dict(case),
            )
        finally:
            os.unlink(path)
        return net
    return N.build_network(case)


def compare_rhs(case, proj, failures, tag):
    present = sorted({i for rc in case["reactions"] for i in rc["r"] + rc["p"]} | set(case.get("required", [])))
    ident = {}
    for i in present:
        ident.setdefault(M.identity(case["pool"][i]), i)
    slots = N.slot_of(case, proj)
    for i in present:
        if i not in slots:
            failures.append(("rhs/species-without-slot", f"{tag}: species {N.names_of(case)[i]} has no IDX_ macro"))
            return None, None
    thermal = bool(case.get("heating") or case.get("cooling"))
    nspec_expected = len(ident)
    if proj.nspec != nspec_expected:
        failures.append(("rhs/nspecies-mismatch", f"{tag}: NSPECIES={proj.nspec}, abstract network has {nspec_expected} species"))
        return None, None
    neq_expected = max(nspec_expected + (1 if thermal else 0), 1)
    if proj.neq != neq_expected:
        failures.append(("rhs/nequations-mismatch", f"{tag}: NEQUATIONS={proj.neq}, expected {neq_expected}"))
        return None, None
    if thermal and proj.ints.get("IDX_TGAS") != nspec_expected:
        failures.append(("rhs/tgas-slot", f"{tag}: IDX_TGAS={proj.ints.get('IDX_TGAS')} expected {nspec_expected}"))
        return None, None
    ref = N.reference_rhs(case, slots, proj.neq, proj.nspec)
    got = proj.fex_polys()
    for s in range(proj.neq):
        if s not in got:
            if nspec_expected == 0 and not thermal:
                continue  # NEQUATIONS is padded to 1 for the empty network; nothing to assign
            failures.append(("rhs/unassigned-slot", f"{tag}: ydot[{s}] is never assigned"))
            continue
        if got[s] != ref[s]:
            kind = "thermal-row" if (thermal and s == proj.nspec) else "species-row"
            failures.append((f"rhs/{kind}", f"{tag}: ydot[{s}] = {got[s]}  but mass action gives {ref[s]}"))
    return slots, got


def check_case(case, tier):
    N.reset_naunet_state()
    failures = []
    labels = N.network_features(case) + [f"route-{case.get('route', 'api')}"]
    with N.Scratch() as d, N.ThermalPatch(case):
        try:
            net = build(case)
            projs = N.render(net, d)
        except Exception as e:  # a well-formed network must render
            import traceback

            tb = traceback.extract_tb(e.__traceback__)
            where = next((f"{fr.filename.split('/')[-1]}:{fr.name}" for fr in reversed(tb) if "/naunet/" in fr.filename), "?")
            failures.append((f"render-raises/{type(e).__name__}@{where}", f"{type(e).__name__}: {e}"))
            projs = {}
        for method, proj in projs.items():
            try:
                compare_rhs(case, proj, failures, method)
            except LayoutViolation as e:
                failures.append(("rhs/layout", f"{method}: {e}"))
            except CInvalidC as e:
                failures.append(("rhs/invalid-c", f"{method}: {e}"))
    nontrivial = any(
        l in labels
        for l in ("repeated-reactant", "three-body", "catalyst", "pseudo-reactant", "duplicate-reaction", "thermal")
    )
    return CaseResult(failures, nontrivial, labels, sample=N.abridge(case))
