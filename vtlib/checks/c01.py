"""C01 — generated ODE right-hand side is the mass-action law of the input network."""
from __future__ import annotations

from hypothesis import strategies as st

from ..gen import model as M
from ..runner import CaseResult
from .. import netcase as N
from .. import cudacase as CU
from ..ctext.extract import BACKENDS, LayoutViolation
from ..ctext.lexer import CInvalidC

PROPERTY = "C01"
LEVEL = "exploration"
TECHNIQUE = 'property-based testing (Hypothesis): generated abstract networks (API, native-file and multi-format-file routes) rendered for four back-ends; exact polynomial oracle (mass-action law computed from the abstract network vs. parsed ydot text); a fraction of the cases executes the cuSPARSE kernels on a batch of cells (host emulation of the CUDA launch) against the dense back-end per cell'
RULE = (
    "Hypothesis-generated abstract networks (0-12 reactions over 2-10 species; 1-3 reactants with repetition, "
    "0-5 products, catalysts, pseudo-reactants, duplicates, required-unreacting species, ice/grain/electron species, "
    "synthetic heating/cooling processes; a quarter with user ODE modifiers - factors that are sums starting with a minus sign "
    "included - whose terms are added to the reference; API route, native-file route and multi-format route) rendered for all four back-ends; the "
    "emitted ydot statements are normalised to exact polynomials in k[], kh[], kc[], y[] and compared with the "
    "mass-action polynomial computed from the abstract network. Non-trivial = network has a repeated reactant, "
    ">=3 reactants, a catalyst, a pseudo-reactant, a duplicate reaction or a thermal row; distinct = sha1 of the "
    "canonical JSON of the abstract case."
)
ASSUMPTIONS = [
    "species slots are located through the rendered IDX_<alias> macro (alias naming is C09's subject)",
    "heating processes are injected by patching naunet.network.get_allowed_heating/cooling (upstream ships none)",
    "cuSPARSE back-end: kernel text for every case; for a fraction of the cases the rendered .cu files are compiled as C++ against a host emulation of the CUDA launch (vtlib/cxx/shim/vt_cuda.h, launch syntax rewritten mechanically) and run on 2-4 cells",
    "vtlib.ctext (my C-subset reader) is trusted; cross-checked against compiled code in the thorough tier of C03",
]


def budget(tier):
    if tier == "quick":
        return dict(examples=30, shards=16)
    return dict(examples=150, shards=16, shrink_calls=2000)


@st.composite
def _case(draw, big=False):
    # (a quarter of the networks carries user ODE modifiers: the derivative is then the mass-action law plus exactly those terms)
    case = draw(M.network(max_species=25 if big else 10, max_reactions=60 if big else 12, thermal=True, modifiers=draw(st.integers(0, 3)) == 0))
    case["route"] = draw(st.sampled_from(["api", "api", "file", "multi"]))
    if case["route"] == "multi":
        case["multi_formats"] = draw(st.lists(st.sampled_from(["kida", "umist", "leeds", "uclchem", "naunet"]), min_size=2, max_size=3))
    # a fraction of the cases also *executes* the cuSPARSE kernels on a batch of cells (host emulation) against the dense
    # back-end run on each cell alone; thermal networks are preferred (their derived quantities depend on the cell)
    thermal = bool(case["cooling"] or case["heating"])
    case["cuda"] = draw(CU.batch()) if draw(st.integers(0, 2 if thermal else 9)) == 0 else None
    # a fraction of the networks with temperature windows is compiled (dense, odeint) and evaluated twice in one process at
    # two temperatures: the derivative is a function of the current state only (a second Solve, another cell)
    # now and then a hub: one species whose equation collects more than a thousand terms (full-size networks: e-, H, H2), built
    # by entering reactions of the generated network again and again (piecewise fits, merged databases) in a generated pattern
    if len(case["reactions"]) >= 2 and draw(st.integers(0, 24)) == 0:
        case["hub"] = {"n": draw(st.integers(1001, 1400)), "pattern": draw(st.lists(st.integers(0, len(case["reactions"]) - 1), min_size=2, max_size=7))}
    windowed = any(rc["tmin"] > 0 or rc["tmax"] > 0 for rc in case["reactions"])
    case["twice"] = windowed and draw(st.integers(0, 5)) == 0
    return case


def strategy(tier):
    return _case(big=(tier == "thorough"))


def fixed_cases(tier):
    H = {"k": "mol", "t": [["H", 1]], "q": 0, "s": False, "l": ""}
    H2 = {"k": "mol", "t": [["H", 2]], "q": 0, "s": False, "l": ""}
    Hp = {"k": "mol", "t": [["H", 1]], "q": 1, "s": False, "l": ""}
    e = {"k": "e"}
    He = {"k": "mol", "t": [["He", 1]], "q": 0, "s": False, "l": ""}
    rx = lambda r, p, **kw: dict(dict(r=r, p=p, pseudo=[], type=100, a=1.0, b=0.0, c=0.0, tmin=-1.0, tmax=-1.0, idx=-1), **kw)
    base = dict(pool=[H, H2, Hp, e, He], required=[], eletter="e-", cooling=[], heating=[], ode_mod=[], route="api")
    return [
        dict(base, reactions=[]),  # empty network
        dict(base, reactions=[], required=[4]),  # only an unreacting species
        dict(base, reactions=[rx([0, 0], [1]), rx([1], [0, 0], pseudo=["CR"], type=101), rx([2, 3], [0])], required=[4]),
        dict(base, reactions=[rx([1, 0], [0, 0, 0]), rx([0, 0, 0], [1, 0]), rx([0, 3], [2, 3, 3])]),
        dict(base, reactions=[rx([2, 3], [0])], cooling=[{"r": [0, 3], "rate": "1e-22"}], heating=[{"r": [0, 0], "rate": "2e-22"}], required=[4]),
        dict(base, reactions=[rx([0, 0], [1]), rx([0, 0], [1])], route="file"),
    ]


_CODE = {
    "kida": {100: 3, 101: 1, 102: 2, 110: 4, 111: 5},
    "umist": {100: "NN", 101: "CP", 102: "PH", 120: "CR"},
    "leeds": {100: 1, 101: 2, 102: 4, 120: 3},
    "uclchem": {100: "", 101: "CRP", 102: "PHOTON", 120: "CRPHOT"},
    "naunet": {t: t for t in (100, 101, 102, 110, 111, 120)},
}


def _fits(fmt, rc, names, case):
    """Can this abstract reaction be written as one well-formed line of `fmt`?"""
    from ..gen import lines as L

    if rc["type"] not in _CODE[fmt]:
        return False
    if fmt == "naunet":
        return True
    sp = [case["pool"][i] for i in rc["r"] + rc["p"]]
    if any(s.get("s") or s["k"] == "grain" or s.get("l") for s in sp):
        return False
    nr = len(rc["r"]) + (1 if (rc.get("pseudo") or (fmt == "umist" and _CODE[fmt][rc["type"]] in ("CP", "PH", "CR")) or (fmt == "uclchem" and _CODE[fmt][rc["type"]])) else 0)
    if nr > L.N_REACT[fmt] or len(rc["p"]) > L.N_PROD[fmt] or (fmt not in ("kida",) and len(rc["p"]) == 0):
        return False
    if rc.get("pseudo") and fmt in ("uclchem", "umist"):
        return False
    if rc.get("pseudo") and rc["pseudo"][0] not in L.MARKERS[fmt]:
        return False
    return all(len(names[i]) <= L.NAME_LIMIT[fmt] for i in rc["r"] + rc["p"])


def build_multi(case):
    """Reactions are split into contiguous groups, each group written as a file of another format; one Network reads them all."""
    import os, tempfile
    from ..gen import formats as F
    from ..gen import lines as L
    from naunet.network import Network

    names = N.names_of(case)
    groups = []  # (fmt, [reaction indices])
    order = case.get("multi_formats") or ["kida", "umist", "naunet"]
    k = 0
    rs = case["reactions"]
    for gi, fmt in enumerate(order):
        n = max(1, len(rs) // len(order)) if gi < len(order) - 1 else len(rs) - k
        idxs = list(range(k, min(len(rs), k + n)))
        k += len(idxs)
        sub = []
        for i in idxs:
            f = fmt if _fits(fmt, rs[i], N.names_for_reaction(case, rs[i]), case) else "naunet"
            if sub and sub[-1][0] == f:
                sub[-1][1].append(i)
            else:
                sub.append((f, [i]))
        groups += sub
    d = tempfile.mkdtemp(prefix="vt-")
    paths, fmts = [], []
    try:
        for gi, (fmt, idxs) in enumerate(groups):
            lines = []
            for i in idxs:
                rc = rs[i]
                nm = N.names_for_reaction(case, rc)
                if fmt == "uclchem":
                    nm = ["E-" if case["pool"][j]["k"] == "e" else n for j, n in enumerate(nm)]
                ints = fmt in ("kida", "umist", "leeds")
                lr = {"fmt": fmt, "r": [nm[j] for j in rc["r"]], "p": [nm[j] for j in rc["p"]], "markers_r": [(1 + q, m) for q, m in enumerate(rc.get("pseudo", []))],
                      "a": abs(rc["a"]) if fmt == "leeds" else rc["a"], "b": rc["b"], "c": rc["c"], "tmin": int(rc["tmin"]) if ints else rc["tmin"], "tmax": int(rc["tmax"]) if ints else rc["tmax"],
                      "idx": -1 if fmt == "uclchem" else max(rc.get("idx", -1), 1) if fmt in ("kida", "leeds", "umist") else rc.get("idx", -1), "code": _CODE[fmt][rc["type"]]}
                if fmt == "leeds":
                    lr["tmin"], lr["tmax"] = max(lr["tmin"], 0), max(lr["tmax"], 0)
                    lr["b"] = max(-9999.0, min(9999.0, lr["b"]))
                if fmt == "umist" and lr["code"] in F.UMIST_MARKER:
                    lr["markers_r"] = [(1, F.UMIST_MARKER[lr["code"]])]
                lines.append(L.encode(lr, {"padded": False}))
            path = os.path.join(d, f"g{gi}.{fmt}")
            with open(path, "w") as fh:
                fh.write("\n".join(lines) + "\n")
            paths.append(path)
            fmts.append(fmt)
        return Network(
            filelist=paths, fileformats=fmts,
            required_species=[names[i] for i in case.get("required", [])],
            heating=[f"VT_H{j}" for j in range(len(case.get("heating", [])))],
            cooling=[f"VT_C{j}" for j in range(len(case.get("cooling", [])))],
            ode_modifier=N.ode_modifier_dict(case),
        )
    finally:
        import shutil

        shutil.rmtree(d, ignore_errors=True)


def build(case):
    """Abstract case -> Network through the chosen route."""
    if case.get("route") == "multi" and case["reactions"]:
        return build_multi(case)
    if case.get("route") == "file":
        # write the reactions in the native exchange format with my own encoder, then read the file
        from ..gen import formats as F

        names = N.names_of(case)
        text = "\n".join(F.encode_naunet(F.from_case_reaction(rc, N.names_for_reaction(case, rc)), padded=False) for rc in case["reactions"]) + "\n"
        import tempfile, os
        from naunet.network import Network

        fd, path = tempfile.mkstemp(prefix="vt-", suffix=".naunet")
        try:
            with os.fdopen(fd, "w") as f:
                f.write(text)
            net = Network(
                filelist=path if case["reactions"] else None,
                fileformats="naunet" if case["reactions"] else None,
                required_species=[names[i] for i in case.get("required", [])],
                heating=[f"VT_H{j}" for j in range(len(case.get("heating", [])))],
                cooling=[f"VT_C{j}" for j in range(len(case.get("cooling", [])))],
                ode_modifier=N.ode_modifier_dict(case),
            )
        finally:
            os.unlink(path)
        return net
    return N.build_network(case)


def compare_rhs(case, proj, failures, tag):
    present = sorted({i for rc in case["reactions"] for i in rc["r"] + rc["p"]} | set(case.get("required", [])))
    ident = {}
    for i in present:
        ident.setdefault(M.identity(case["pool"][i]), i)
    slots = N.slot_of(case, proj)
    for i in present:
        if i not in slots:
            failures.append(("rhs/species-without-slot", f"{tag}: species {N.names_of(case)[i]} has no IDX_ macro"))
            return None, None
    thermal = bool(case.get("heating") or case.get("cooling"))
    nspec_expected = len(ident)
    if proj.nspec != nspec_expected:
        failures.append(("rhs/nspecies-mismatch", f"{tag}: NSPECIES={proj.nspec}, abstract network has {nspec_expected} species"))
        return None, None
    neq_expected = max(nspec_expected + (1 if thermal else 0), 1)
    if proj.neq != neq_expected:
        failures.append(("rhs/nequations-mismatch", f"{tag}: NEQUATIONS={proj.neq}, expected {neq_expected}"))
        return None, None
    if thermal and proj.ints.get("IDX_TGAS") != nspec_expected:
        failures.append(("rhs/tgas-slot", f"{tag}: IDX_TGAS={proj.ints.get('IDX_TGAS')} expected {nspec_expected}"))
        return None, None
    ref = N.reference_rhs(case, slots, proj.neq, proj.nspec)
    got = proj.fex_polys()
    for s in range(proj.neq):
        if s not in got:
            if nspec_expected == 0 and not thermal:
                continue  # NEQUATIONS is padded to 1 for the empty network; nothing to assign
            failures.append(("rhs/unassigned-slot", f"{tag}: ydot[{s}] is never assigned"))
            continue
        if got[s] != ref[s]:
            kind = "thermal-row" if (thermal and s == proj.nspec) else "species-row"
            failures.append((f"rhs/{kind}", f"{tag}: ydot[{s}] = {got[s]}  but mass action gives {ref[s]}"))
    return slots, got


def twice_check(net, d, failures):
    """Compiled Fex of the dense and Odeint back-ends: the second evaluation in a process (other temperature, other state)
    equals the evaluation of the same state in a fresh process."""
    from ..cxx import build
    from ..ratecase import data_fields

    full = N.render(net, d / "tw", backends=[("cvode", "dense", "cpu"), ("odeint", "rosenbrock4", "cpu")], templates="all")
    for method, proj in full.items():
        try:
            exe = build.build_ode_driver(proj, sanitize=False)
        except build.BuildError:
            return  # closure of the sources is C10's subject
        fields = data_fields(proj)
        vals = lambda T: " ".join(float(T if f == "Tgas" else 0.5 if f == "omega" else (1.0 if dv is None else dv)).hex() for f, dv in fields.items())
        y1 = " ".join(float(10.0 ** (-(i % 7)) * (1 + 0.25 * i)).hex() for i in range(proj.neq))
        y2 = " ".join(float(10.0 ** (-((i + 3) % 5)) * (1 + 0.125 * i)).hex() for i in range(proj.neq))
        for T1, T2 in ((57.0, 5.0), (57.0, 9.0e4)):
            second = f"p {vals(T2)}\ny {y2}\nrun\n"
            rc, out, err = build.run_driver(exe, f"p {vals(T1)}\ny {y1}\nrun\n" + second, proj.path)
            rc2, out2, err2 = build.run_driver(exe, second, proj.path)
            if rc != 0 or rc2 != 0:
                raise RuntimeError(f"ode driver failed: {err[-300:]} {err2[-300:]}")
            a, b = build.parse_ode_output(out), build.parse_ode_output(out2)
            fa, fb = a[1]["F"], b[0]["F"]
            bad = [i for i in range(proj.neq) if not (fa[i] == fb[i] or (fa[i] != fa[i] and fb[i] != fb[i]))]
            if bad:
                i = bad[0]
                failures.append((f"rhs/depends-on-earlier-call/{method}", f"{method}: ydot[{i}] = {fa[i]!r} when evaluated at T={T2:g} after an evaluation at T={T1:g} in the same process, {fb[i]!r} in a fresh process"))
                return


def expand_hub(case):
    hub = case.get("hub")
    if not hub:
        return case
    rs = case["reactions"]
    more = [dict(rs[hub["pattern"][i % len(hub["pattern"])] % len(rs)], idx=-1) for i in range(hub["n"])]
    return dict(case, reactions=[dict(r, idx=-1) for r in rs] + more, route="api")


def check_case(case, tier):
    N.reset_naunet_state()
    failures = []
    extra = {}
    compact = case
    case = expand_hub(case)
    labels = N.network_features(compact) + [f"route-{case.get('route', 'api')}"] + (["hub-equation>1000-terms"] if compact.get("hub") else [])
    with N.Scratch() as d, N.ThermalPatch(case):
        try:
            net = build(case)
            projs = N.render(net, d)
        except Exception as e:  # a well-formed network must render
            import traceback

            tb = traceback.extract_tb(e.__traceback__)
            where = next((f"{fr.filename.split('/')[-1]}:{fr.name}" for fr in reversed(tb) if "/naunet/" in fr.filename), "?")
            failures.append((f"render-raises/{type(e).__name__}@{where}", f"{type(e).__name__}: {e}"))
            projs = {}
        for method, proj in projs.items():
            try:
                compare_rhs(case, proj, failures, method)
            except LayoutViolation as e:
                failures.append(("rhs/layout", f"{method}: {e}"))
            except CInvalidC as e:
                failures.append(("rhs/invalid-c", f"{method}: {e}"))
        if case.get("cuda") and projs and not failures:
            labels.append("cuda-batch-executed")
            full = N.render(net, d / "cu", backends=[("cvode", "dense", "cpu"), ("cvode", "cusparse", "gpu")], templates="all")
            f2, info = CU.run_batch(case["cuda"], full["dense"], full["cusparse"])
            # C01 is about the right-hand side: Jacobian discrepancies of the batch belong to C02/C03
            failures += [(k, m) for k, m in f2 if "/jac/" not in k]
            extra = dict(info)
        if case.get("twice") and projs and not failures:
            labels.append("compiled-evaluated-twice")
            twice_check(net, d, failures)
    nontrivial = any(
        l in labels
        for l in ("repeated-reactant", "three-body", "catalyst", "pseudo-reactant", "duplicate-reaction", "thermal")
    )
    return CaseResult(failures, nontrivial, labels, sample=N.abridge(compact), extra=extra)
