"""C06 — a reaction acts only inside its declared temperature window."""
from __future__ import annotations
import math

from hypothesis import strategies as st

from ..gen import lines as L
from ..gen import formats as F
from ..runner import CaseResult
from .. import netcase as N
from .. import ratecase as R
from .. import cudacase as CU
from ..ref import laws
from ..ctext.cfile import walk_decls
from ..ctext.extract import BACKENDS, Project
from .c05 import build_file_network

PROPERTY = "C06"
LEVEL = "exploration"
TECHNIQUE = "property-based testing (Hypothesis): generated window families per format, rendered EvalRates interpreted at boundary / nextafter / interior / exterior temperatures; oracle = window predicate + independent law; a fraction of the cases executes the cuSPARSE kernels on a batch of cells (host emulation of the CUDA launch) and compares every cell with the dense back-end"
RULE = (
    "Per format (KIDA/UMIST/Leeds integer bounds, KROME '>', '<', '.GE.', '.LE.', 'NONE', d-exponents, UCLCHEM and "
    "native float bounds incl. non-integral ones) families of 1-4 reactions that split [Tlo,Thi) into adjacent "
    "windows, plus reactions with only a lower / only an upper / non-positive / no bound. EvalRates (cvode + odeint "
    "text) is interpreted at every bound, nextafter on both sides of it, midpoints and far outside. Oracle: k_i(T) is "
    "exactly 0.0 iff not (Tmin <= T < Tmax) with non-positive bounds ignored, and equals the unguarded law otherwise; "
    "inside the union of an adjacent family exactly one member is non-zero; every back-end declares the rate arrays "
    "zero-initialised ('= {0.0}'). Non-trivial = probe set contains an exact boundary of a two-sided window."
)
ASSUMPTIONS = [
    "cuSPARSE back-end: kernel text for every case; for a fraction of the cases the rendered .cu files are compiled as C++ against a host emulation of the CUDA launch (vtlib/cxx/shim/vt_cuda.h, launch syntax rewritten mechanically) and run on 2-5 cells; batch temperatures are probe temperatures of the case",
    "UCLCHEM FREEZE lines are not generated here (their documented forced window is C07's subject)",
    "the law inside the window is positive by construction (alpha > 0, moderate beta/gamma) so 'non-zero' is decidable",
    "KROME window operators are read as naunet documents them: the bound value only; Tmin <= T < Tmax decides activity",
]
FORMATS = ["kida", "umist", "leeds", "uclchem", "naunet", "krome"]


def budget(tier):
    if tier == "quick":
        return dict(examples=25, shards=16)
    return dict(examples=300, shards=16, shrink_calls=1500)


KROME_LO = [(">{}", 1), (".GE.{}", 1), ("{}", 1), (".GT.{}", 1)]
KROME_HI = [("<{}", 1), (".LE.{}", 1), ("{}", 1), (".LT.{}", 1)]


def _krome_num(draw, x):
    style = draw(st.sampled_from(["plain", "d", "e", "dot"]))
    if style == "dot" and x == x and x > 0:
        # Fortran style with a leading decimal point: 5500 -> .55d4
        from decimal import Decimal

        dec = Decimal(repr(float(x)))
        sign, digits, ex = dec.as_tuple()
        ds = "".join(map(str, digits)).rstrip("0") or "0"
        e10 = len(digits) + ex
        return f".{ds}{draw(st.sampled_from(['d', 'e']))}{e10}"
    if style == "plain" or x != x:
        return repr(float(x)) if x != int(x) else str(int(x))
    m = f"{x:.6e}"
    mant, ex = m.split("e")
    mant = mant.rstrip("0").rstrip(".") if "." in mant else mant
    if "." not in mant:
        mant += "."
    # the exponent as Fortran's ES/D edit descriptors and C's %e print it (explicit sign, two digits), or bare
    ex_t = f"{int(ex):+03d}" if draw(st.integers(0, 2)) == 0 else str(int(ex))
    return f"{mant}{'d' if style == 'd' else 'e'}{ex_t}"


@st.composite
def _case(draw):
    fmt = draw(st.sampled_from(FORMATS))
    ints = fmt in ("kida", "umist", "leeds")
    nfam = draw(st.integers(1, 3))
    lrs = []
    fams = []
    krome_txt = []
    for f in range(nfam):
        nwin = draw(st.integers(1, 4))
        if ints:
            cuts = sorted(draw(st.lists(st.integers(3, 40000), min_size=nwin + 1, max_size=nwin + 1, unique=True)))
        else:
            cuts = sorted(draw(st.lists(st.one_of(st.integers(3, 40000).map(float), st.floats(min_value=3.0, max_value=40000.0).map(lambda x: float(f"{x:.2f}")), st.sampled_from([157.35, 11604.52, 2.73, 41000.25, 5500.0, 9280.0])), min_size=nwin + 1, max_size=nwin + 1, unique=True)))
        shape = draw(st.sampled_from(["two-sided", "two-sided", "two-sided", "open-low", "open-high", "none", "nonpositive"]))
        members = []
        for w in range(nwin):
            lo, hi = cuts[w], cuts[w + 1]
            if nwin == 1:
                if shape == "open-low":
                    lo = -1 if not ints else draw(st.sampled_from([0, -9999]))
                elif shape == "open-high":
                    hi = -1 if not ints else draw(st.sampled_from([0, -1]))
                elif shape == "none":
                    lo, hi = (0, 0) if ints else (-1.0, -1.0)
                elif shape == "nonpositive":
                    lo, hi = (-5, 0) if ints else (0.0, -3.5)
            lr = draw(L.line_reaction(fmt))
            lr["markers_r"] = []
            lr["code"] = {"kida": 3, "umist": "NN", "leeds": 1, "uclchem": "", "naunet": 100, "krome": 999}[fmt]
            if fmt == "uclchem":
                lr["r"] = lr["r"][:3]
            lr["a"] = draw(st.sampled_from([1e-10, 2.5e-9, 1.0, 3.3e-12]))
            lr["b"] = draw(st.sampled_from([0.0, 0.5, -0.5, 1.0, -1.5]))
            # (a fit may overflow or be undefined outside its own window: exp(8000/T) at 10 K; the guard must keep it exactly 0 there)
            lr["c"] = draw(st.sampled_from([0.0, 10.0, -10.0, 50.0, -8000.0, -30000.0]))
            lr["tmin"], lr["tmax"] = (int(lo), int(hi)) if ints else (float(lo), float(hi))
            if fmt == "krome":
                lo_t = "NONE" if lo <= 0 and draw(st.booleans()) else draw(st.sampled_from(KROME_LO))[0].format(_krome_num(draw, lo)) if lo > 0 else "NONE"
                hi_t = "NONE" if hi <= 0 and draw(st.booleans()) else draw(st.sampled_from(KROME_HI))[0].format(_krome_num(draw, hi)) if hi > 0 else "NONE"
                if lo <= 0:
                    lr["tmin"] = -1.0
                if hi <= 0:
                    lr["tmax"] = -1.0
                krome_txt.append((lo_t, hi_t))
            members.append(len(lrs))
            lrs.append(lr)
        fams.append({"members": members, "adjacent": nwin > 1 or shape == "two-sided"})
    case = {"fmt": fmt, "lines": lrs, "families": fams, "variant": {"padded": False} if fmt == "naunet" else {}, "krome_txt": krome_txt,
            "Av": draw(st.sampled_from([0.0, 1.0])), "extra_T": draw(st.lists(st.floats(min_value=2.7, max_value=1e5), min_size=1, max_size=3))}
    # a fraction of the cases is also converted with naunet's own KROME writer (Network.write(..., "krome")) and read back
    case["via_krome"] = fmt != "krome" and draw(st.integers(0, 3)) == 0
    # a fraction of the cases executes the cuSPARSE kernels on a batch of cells whose temperatures are probe
    # temperatures of this case (each cell must see only the reactions active at *its* temperature)
    if draw(st.integers(0, 5)) == 0:
        b = draw(CU.batch(maxcells=5))
        b["tsel"] = [draw(st.integers(0, 10000)) for _ in range(b["ncell"])]
        case["cuda"] = b
    return case


def strategy(tier):
    return _case()


def fixed_cases(tier):
    out = []
    for fmt in ("kida", "uclchem", "naunet", "krome"):
        ints = fmt == "kida"
        code = {"kida": 3, "uclchem": "", "naunet": 100, "krome": 999}[fmt]
        base = {"fmt": fmt, "r": ["H", "CH"], "p": ["C", "H2"], "markers_r": [], "a": 1e-10, "b": 0.5, "c": 10.0, "idx": -1 if fmt == "uclchem" else 1, "code": code}
        cuts = [10, 300, 5500] if ints else [10.0, 157.35, 5500.0]
        lrs = [dict(base, tmin=cuts[0], tmax=cuts[1]), dict(base, tmin=cuts[1], tmax=cuts[2], idx=base["idx"] if fmt == "uclchem" else 2)]
        kt = [("10", "<157.35"), (".GE.157.35", ".LE.5.5d3")] if fmt == "krome" else []
        out.append({"fmt": fmt, "lines": lrs, "families": [{"members": [0, 1], "adjacent": True}], "variant": {"padded": False} if fmt == "naunet" else {}, "krome_txt": kt, "Av": 1.0, "extra_T": [50.0]})
    return out


def active(lr, T):
    lo, hi = lr["tmin"], lr["tmax"]
    if lo > 0 and not (T >= lo):
        return False
    if hi > 0 and not (T < hi):
        return False
    return True


def probes(lrs, extra):
    ts = set(extra)
    for lr in lrs:
        for b in (lr["tmin"], lr["tmax"]):
            if b > 0:
                b = float(b)
                ts.update([b, math.nextafter(b, math.inf), math.nextafter(b, -math.inf), b * 0.5, b * 2.0])
        if lr["tmin"] > 0 and lr["tmax"] > 0:
            ts.add(0.5 * (lr["tmin"] + lr["tmax"]))
    ts.update([2.7, 9.9e4])
    return sorted(t for t in ts if t > 0)


def check_case(case, tier):
    N.reset_naunet_state()
    fmt = case["fmt"]
    lrs = case["lines"]
    failures = []
    xtra = {}
    labels = [f"fmt-{fmt}"]
    with N.Scratch() as d:
        try:
            if fmt == "krome":
                from naunet.network import Network
                import os, tempfile

                order = ["idx", "r", "r", "r", "p", "p", "p", "p", "p", "tmin", "tmax", "rate"]
                lines = ["@format:idx,R,R,R,P,P,P,P,P,Tmin,Tmax,rate"]
                for lr, (lo_t, hi_t) in zip(lrs, case["krome_txt"]):
                    lines.append(F.encode_krome(lr, order, lo_t, hi_t, "1.0d-10"))
                fd, path = tempfile.mkstemp(prefix="vt-", suffix=".krome")
                with os.fdopen(fd, "w") as f:
                    f.write("\n".join(lines) + "\n")
                try:
                    net = Network(filelist=path, fileformats="krome")
                finally:
                    os.unlink(path)
            else:
                extra = ["H,H,NAN,H2,NAN,NAN,NAN,1e-17,0.0,0.0,0.0,0.0"] if fmt == "uclchem" else []
                net = build_file_network(fmt, lrs, case.get("variant", {}), extra)
            projs = R.render_rates(net, d)
        except Exception as e:
            import traceback

            tb = traceback.extract_tb(e.__traceback__)
            where = next((f"{fr.filename.split('/')[-1]}:{fr.name}" for fr in reversed(tb) if "/naunet/" in fr.filename), "?")
            failures.append((f"window/raises/{type(e).__name__}@{where}", f"{type(e).__name__}: {e}"))
            return CaseResult(failures, True, labels, sample={"fmt": fmt})
        off = 1 if fmt == "uclchem" else 0
        ts = probes(lrs, case["extra_T"])
        # every function of every back-end that evaluates rates starts from a zeroed array on *each* call
        try:
            allp = N.render(net, d / "all")
        except Exception:
            allp = {}
        for method, proj in allp.items():
            fns = [("naunet_ode", r"Fex::operator\(\)"), ("naunet_ode", r"Jac::operator\(\)")] if proj.solver == "odeint" else \
                  [("naunet_fex", "FexKernel"), ("naunet_jac", "JacKernel")] if method == "cusparse" else [("naunet_fex", "Fex"), ("naunet_jac", "Jac")]
            for stem, fn in fns:
                _, stmts = proj.function(stem, fn)
                kd = [dcl for dcl in walk_decls(stmts) if dcl[2] == "k"]
                ok = bool(kd) and kd[0][3] is not None and kd[0][4] is not None and kd[0][4][0] == "initlist" and [x[1] for x in kd[0][4][1]] in (["0.0"], ["0"], ["0."])
                if not ok:
                    failures.append(("window/k-not-zero-initialised", f"{method}: {fn} does not declare k[NREACTIONS] = {{0.0}}"))
                elif "static" in kd[0][1].split():
                    failures.append(("window/k-zeroed-only-once", f"{method}: {fn} declares k[] static: it is zeroed once, so a reaction outside its window keeps the coefficient of an earlier call"))
        for method, proj in projs.items():
            if proj.nreac != len(lrs) + off:
                failures.append(("window/nreactions", f"{method}: NREACTIONS={proj.nreac} for {len(lrs) + off} lines"))
                continue
            pass
            for T in ts:
                P = {"Tgas": T, "Av": case["Av"], "zeta": 1.3e-17, "zeta_cr": 1.3e-17, "zeta_xr": 0.0, "omega": 0.5, "G0": 1.0, "nH": 1e4, "Tdust": 10.0}
                k, _ = R.eval_rates(proj, P)
                bad = False
                for i, lr in enumerate(lrs):
                    got = k[i + off]
                    if active(lr, T):
                        if fmt == "krome":
                            ref = 1.0e-10
                        else:
                            pa, pb, pc, _, _ = L.printed_values(lr, case.get("variant", {}))
                            ref = laws.gas_rate(dict(lr, pa=pa, pb=pb, pc=pc), P, proj.idx_table())
                        if not R.close(got, ref):
                            side = "at-bound" if T in (float(lr["tmin"]), float(lr["tmax"])) else "inside"
                            failures.append((f"window/inactive-inside/{side}", f"{method}: k[{i + off}]({T!r}) = {got!r} inside window [{lr['tmin']},{lr['tmax']}) where the law gives {ref!r}"))
                            bad = True
                    elif got != 0.0:
                        side = "at-bound" if T in (float(lr["tmin"]), float(lr["tmax"])) else "outside"
                        failures.append((f"window/active-outside/{side}", f"{method}: k[{i + off}]({T!r}) = {got!r} outside window [{lr['tmin']},{lr['tmax']})"))
                        bad = True
                for fam in case["families"]:
                    ms = fam["members"]
                    if len(ms) > 1:
                        lo = min(lrs[m]["tmin"] for m in ms)
                        hi = max(lrs[m]["tmax"] for m in ms)
                        if lo <= T < hi:
                            nz = [m for m in ms if k[m + off] != 0.0]
                            if len(nz) != 1:
                                failures.append(("window/family-not-exactly-one", f"{method}: at T={T!r} members {nz} of the family {[(lrs[m]['tmin'], lrs[m]['tmax']) for m in ms]} are active"))
                                bad = True
                if bad:
                    break
        if case.get("via_krome") and not failures:
            # format conversion must keep the windows: same activity pattern after write("krome") + read + render
            from naunet.network import Network as _Net

            kp = str(d / "converted.krome")
            try:
                N.reset_naunet_state()
                net.write(kp, "krome")
                net2 = _Net(filelist=kp, fileformats="krome")
                proj2 = R.render_rates(net2, d / "conv", backends=(("cvode", "dense", "cpu"),))["dense"]
                ok_conv = proj2.nreac == len(lrs) + off
            except Exception as e:
                labels.append(f"krome-writer-refused-{type(e).__name__}")
                ok_conv = False
            if ok_conv:
                labels.append("converted-via-krome-writer")
                for T in ts:
                    P = {"Tgas": T, "Av": case["Av"], "zeta": 1.3e-17, "zeta_cr": 1.3e-17, "zeta_xr": 0.0, "omega": 0.5, "G0": 1.0, "nH": 1e4, "Tdust": 10.0}
                    try:
                        k2, _ = R.eval_rates(proj2, P)
                    except Exception as e:
                        labels.append("converted-not-evaluable")
                        break
                    bad = [(i, lr) for i, lr in enumerate(lrs) if (k2[i + off] != 0.0) and not active(lr, T)]
                    if bad:
                        i, lr = bad[0]
                        failures.append(("window/active-outside/after-krome-writer", f"after write('krome') + read: k[{i + off}]({T!r}) = {k2[i + off]!r} outside the declared window [{lr['tmin']},{lr['tmax']})"))
                        break
                    k1, _ = R.eval_rates(projs["dense"], P)
                    dead = [(i, lr) for i, lr in enumerate(lrs) if active(lr, T) and k1[i + off] != 0.0 and k1[i + off] == k1[i + off] and k2[i + off] == 0.0]
                    if dead:
                        i, lr = dead[0]
                        failures.append(("window/inactive-inside/after-krome-writer", f"after write('krome') + read: k[{i + off}]({T!r}) = 0.0 inside the declared window [{lr['tmin']},{lr['tmax']}) (direct rendering: {k1[i + off]!r})"))
                        break
        if case.get("cuda") and not failures and "dense" in allp:
            b = dict(case["cuda"])
            b["tgas"] = [ts[i % len(ts)] for i in b["tsel"]]
            try:
                full = N.render(net, d / "cu", backends=[("cvode", "dense", "cpu"), ("cvode", "cusparse", "gpu")], templates="all")
            except Exception:
                full = None
            if full:
                labels.append("cuda-batch-executed")
                f2, info = CU.run_batch(b, full["dense"], full["cusparse"])
                failures += f2
                xtra = dict(info)
    twosided = any(lr["tmin"] > 0 and lr["tmax"] > 0 for lr in lrs)
    for lr in lrs:
        labels.append("two-sided" if lr["tmin"] > 0 and lr["tmax"] > 0 else "lower-only" if lr["tmin"] > 0 else "upper-only" if lr["tmax"] > 0 else "no-window")
    if any(len(f["members"]) > 1 for f in case["families"]):
        labels.append("adjacent-family")
    if any(float(b) != int(b) for lr in lrs for b in (lr["tmin"], lr["tmax"])):
        labels.append("non-integral-bound")
    sample = {"fmt": fmt, "windows": [(lr["tmin"], lr["tmax"]) for lr in lrs], "krome": case.get("krome_txt", [])[:4]}
    return CaseResult(failures, twosided, sorted(set(labels)), sample=sample, extra=xtra)
