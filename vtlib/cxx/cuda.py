"""Host emulation of the cuSPARSE back-end (engine A): compile the rendered .cu files as C++ against vt_cuda.h and
run Fex()/InitJac()/Jac() on a *batch* of cells; the per-cell results are compared with the dense CVODE back-end run
on each cell alone (differential oracle: a batched kernel must compute, for every cell, what the serial code computes
for that cell with that cell's own state and parameters).

The only change made to the scratch copy that is compiled is the mechanical rewrite of the launch syntax
`Kernel<<<grid, block, shmem, stream>>>(args);`  ->  `vt_launch(grid, block, [&] { Kernel(args); });`
"""
from __future__ import annotations
import re
import subprocess
from pathlib import Path

from . import build
from .build import BuildError, CXX, SHIM

_LAUNCH = re.compile(r"(\w+)\s*<<<\s*([^,>]+)\s*,\s*([^,>]+)\s*(?:,[^>]*)?>>>\s*\(([^;]*)\)\s*;")
WANT = ["naunet_fex", "naunet_jac", "naunet_rates", "naunet_physics", "naunet_constants"]


def rewrite_launches(text):
    n = 0

    def sub(m):
        nonlocal n
        n += 1
        return f"vt_launch({m.group(2).strip()}, {m.group(3).strip()}, [&] {{ {m.group(1)}({m.group(4)}); }});"

    return _LAUNCH.sub(sub, text), n


def build_cuda_driver(proj, sanitize=True):
    """proj: ctext Project of a cvode/cusparse/gpu rendering. Returns the path of the binary."""
    from ..ratecase import data_fields

    gen = proj.path / "vt_cuda_src"
    gen.mkdir(exist_ok=True)
    srcs = []
    launches = 0
    for stem in WANT:
        p = proj.path / "src" / f"{stem}.cu"
        if not p.exists():
            continue
        text, n = rewrite_launches(p.read_text())
        launches += n
        if "<<<" in text:
            raise BuildError(f"{stem}.cu: a kernel launch was not rewritten")
        q = gen / f"{stem}.cpp"
        q.write_text(text)
        srcs.append(str(q))
    if launches < 2:
        raise BuildError(f"expected the Fex and Jac kernel launches, found {launches}")
    fields = data_fields(proj)
    setf = "".join(f"    if (i < v.size()) data.{k} = v[i]; i++;\n" for k in fields)
    tmpl = (Path(__file__).resolve().parent / "driver_cuda.cpp.in").read_text().replace("@@SET_FIELDS@@", setf)
    drv = gen / "vt_cuda_driver.cpp"
    drv.write_text(tmpl)
    exe = proj.path / "vt_cuda_driver"
    flags = ["-std=c++14", "-O0", "-g", "-fno-omit-frame-pointer", "-Wno-everything", "-include", str(SHIM / "vt_cuda.h")]
    if sanitize:
        flags += ["-fsanitize=address,undefined", "-fno-sanitize-recover=undefined"]
    cmd = [CXX, *flags, f"-I{SHIM}", f"-I{proj.path / 'include'}", *srcs, str(drv), "-o", str(exe)]
    p = subprocess.run(cmd, capture_output=True, text=True)
    if p.returncode != 0:
        raise BuildError(p.stderr[-3000:])
    return exe


def parse_cuda_output(out):
    blocks, cur = [], None
    for ln in out.splitlines():
        t = ln.split()
        if not t:
            continue
        if t[0] == "FRC":
            cur = {"FRC": int(t[1]), "F": {}, "DA": {}}
        elif cur is None:
            continue
        elif t[0] in ("IRC", "JRC", "THREADS", "YCHANGED"):
            cur[t[0]] = int(t[1])
        elif t[0] in ("RP", "CV"):
            cur[t[0]] = [int(x) for x in t[1:]]
        elif t[0] in ("F", "DA"):
            cur[t[0]][int(t[1])] = [float.fromhex(x) for x in t[2:]]
        elif t[0] == "END":
            blocks.append(cur)
            cur = None
    return blocks


def fmt_floats(vals):
    return " ".join(float(v).hex() for v in vals)


def batch_script(cells, ys, policies):
    """cells: list of per-cell field-value lists; ys: list of per-cell state vectors; policies: [(block, grid)]."""
    lines = [f"n {len(cells)}"]
    for c, vals in enumerate(cells):
        lines.append(f"cell {c} " + fmt_floats(vals))
    lines.append("y " + fmt_floats([v for y in ys for v in y]))
    for b, g in policies:
        lines.append(f"pol {b} {g}")
        lines.append("run")
    return "\n".join(lines) + "\n"


def serial_script(cells, ys):
    lines = []
    for vals, y in zip(cells, ys):
        lines.append("p " + fmt_floats(vals))
        lines.append("y " + fmt_floats(y))
        lines.append("run")
    return "\n".join(lines) + "\n"


def close(a, b, rel=1e-12):
    if a != a and b != b:
        return True
    if a == b:
        return True
    if a != a or b != b:
        return False
    return abs(a - b) <= rel * max(abs(a), abs(b))


def batch_differential(dense_proj, cuda_proj, cells, ys, policies=((1, 1), (2, 0), (4, 2)), sanitize=True):
    """Returns (failures, info). failures: list of (key, message)."""
    failures = []
    info = {"cuda_cells_compared": 0}
    try:
        exe_d = build.build_ode_driver(dense_proj, sanitize=sanitize)
    except BuildError as e:
        # closure of the generated sources is C10's subject (e.g. the documented precondition that a UCLCHEM network
        # contains H2): without an executable reference there is nothing to compare
        info["cuda_skipped_reference_does_not_compile"] = 1
        return [], info
    try:
        exe_c = build_cuda_driver(cuda_proj, sanitize=sanitize)
    except BuildError as e:
        diag = next((l for l in str(e).splitlines() if "error" in l), "error: ?")
        cls = build.classify_diag(diag)
        name = cls.split(":", 1)[1] if ":" in cls else ""
        if cls.startswith(("undeclared:", "no-member:", "redefinition:")) and not name.startswith(("cuda", "cu", "__", "atomic", "SUN", "N_V")):
            # the dense rendering of the same network compiles: a name only the cuSPARSE rendering lacks / repeats
            return [(f"cuda-batch/does-not-compile/{cls}", f"cusparse sources (host emulation): {str(e)[-500:]}")], info
        raise RuntimeError(f"host emulation of the cuSPARSE sources does not compile (shim gap?): {str(e)[-800:]}")
    rc, out, err = build.run_driver(exe_d, serial_script(cells, ys), dense_proj.path)
    if rc != 0:
        return [("cuda-batch/dense-reference-crashed", err[-400:])], info
    ref = build.parse_ode_output(out)
    if len(ref) != len(cells):
        raise RuntimeError(f"dense reference produced {len(ref)} blocks for {len(cells)} cells: {err[-300:]}")
    rc, out, err = build.run_driver(exe_c, batch_script(cells, ys, policies), cuda_proj.path)
    if rc != 0:
        kind = "asan" if "AddressSanitizer" in err else "ubsan" if "runtime error" in err else "bounds" if "VT_BOUNDS" in err else "crash"
        return [(f"cuda-batch/sanitizer/{kind}", f"cusparse kernels on a batch of {len(cells)} cells: {err[-500:]}")], info
    runs = parse_cuda_output(out)
    if len(runs) != len(policies):
        raise RuntimeError(f"cuda driver produced {len(runs)} runs for {len(policies)} policies: {err[-300:]}")
    neq = dense_proj.neq
    for (b, g), run in zip(policies, runs):
        pol = f"block={b},grid={'thread-direct' if not g else g}"
        if run["FRC"] != 0 or run.get("JRC") != 0 or run.get("IRC") != 0:
            failures.append(("cuda-batch/nonzero-return", f"{pol}: Fex/InitJac/Jac returned {run['FRC']}/{run.get('IRC')}/{run.get('JRC')}"))
            continue
        if run.get("YCHANGED"):
            failures.append(("cuda-batch/state-modified", f"{pol}: the kernels changed {run['YCHANGED']} entries of the state vector"))
        rp, cv = run["RP"], run["CV"]
        ok_csr = len(rp) == neq + 1 and rp[0] == 0 and all(rp[i] <= rp[i + 1] for i in range(neq)) and rp[-1] == len(cv) and all(0 <= c < neq for c in cv)
        if not ok_csr:
            failures.append(("cuda-batch/csr-malformed", f"{pol}: InitJac left rowptrs {rp[:8]}.. colvals {cv[:8]}.. (NEQUATIONS={neq}, NNZ={len(cv)})"))
            continue
        for c in range(len(cells)):
            where = "cell0" if c == 0 else "cell>0"
            fref, fgot = ref[c]["F"], run["F"][c]
            bad = [i for i in range(neq) if not close(fgot[i], fref[i])]
            if bad:
                i = bad[0]
                never = fgot[i] != fgot[i] and fref[i] == fref[i]
                failures.append((f"cuda-batch/fex/{'nan-or-never-written/' if never else ''}{where}", f"{pol}: cell {c} of {len(cells)}: ydot[{i}] = {fgot[i]!r} in the batched kernel, {fref[i]!r} in the dense back-end for the same cell"))
            jref = dict(ref[c]["J"])
            got = {}
            da = run["DA"][c]
            dup = False
            for r in range(neq):
                for n in range(rp[r], rp[r + 1]):
                    if (r, cv[n]) in got:
                        dup = True
                    got[(r, cv[n])] = da[n]
            if dup:
                failures.append(("cuda-batch/csr-duplicate-coordinate", f"{pol}: a (row, column) pair is stored twice"))
            for rc_, v in got.items():
                w = jref.get(rc_, 0.0)
                if not close(v, w):
                    never = v != v
                    failures.append((f"cuda-batch/jac/{'nan-or-never-written/' if never else ''}{where}", f"{pol}: cell {c} of {len(cells)}: J{rc_} = {v!r} in the batched kernel, {w!r} in the dense back-end for the same cell"))
                    break
            missing = [rc_ for rc_, w in jref.items() if rc_ not in got and w != 0.0]
            if missing:
                failures.append((f"cuda-batch/jac/missing-entry/{where}", f"{pol}: cell {c}: dense J{missing[0]} = {jref[missing[0]]!r} has no slot in the block-CSR pattern"))
            info["cuda_cells_compared"] += 1
    # one report per root-cause key
    seen, uniq = set(), []
    for k, m in failures:
        if k not in seen:
            seen.add(k)
            uniq.append((k, m))
    return uniq, info


def build_cuda_solve_driver(proj, sanitize=True):
    """The rendered cuSPARSE naunet.cpp (Init / Solve / Finalize) + kernels, compiled against the host emulation and
    the scripted CVODE mock, with the same driver as the CPU back-ends (C19)."""
    from ..ratecase import data_fields

    gen = proj.path / "vt_cuda_src"
    gen.mkdir(exist_ok=True)
    srcs = []
    for p in sorted((proj.path / "src").iterdir()):
        if p.suffix not in (".cu", ".cpp") or p.stem in ("naunet_timer",):
            continue
        text, _ = rewrite_launches(p.read_text())
        if "<<<" in text:
            raise BuildError(f"{p.name}: a kernel launch was not rewritten")
        q = gen / f"{p.stem}.cpp"
        q.write_text(text)
        srcs.append(str(q))
    tmpl = (Path(__file__).resolve().parent / "driver_solve.cpp.in").read_text()
    fields = data_fields(proj)
    body = "".join(f"    data.{k} = {1.0 if v is None else v!r};\n" for k, v in fields.items())
    rep = {"@@SCRIPT_PARSE@@": build._CVODE_PARSE, "@@SCRIPT_REPORT@@": build._CVODE_REPORT, "@@SCRIPT_RESET@@": "            vt_script() = VtScript();\n",
           "@@EXTRA_INCLUDES@@": "", "@@DATA_FIELDS@@": body, "@@SCRIPT_DECL@@": ""}
    for k, v in rep.items():
        tmpl = tmpl.replace(k, v)
    drv = gen / "vt_driver.cpp"
    drv.write_text(tmpl)
    exe = proj.path / "vt_driver"
    flags = ["-std=c++14", "-O0", "-g", "-fno-omit-frame-pointer", "-Wno-everything", "-include", str(SHIM / "vt_cuda.h")]
    if sanitize:
        flags += ["-fsanitize=address,undefined", "-fno-sanitize-recover=undefined"]
    cmd = [CXX, *flags, f"-I{SHIM}", f"-I{proj.path / 'include'}", *srcs, str(drv), "-o", str(exe)]
    p = subprocess.run(cmd, capture_output=True, text=True)
    if p.returncode != 0:
        raise BuildError(p.stderr[-3000:])
    return exe
