#include "vt_boost.hpp"
