// Minimal stand-in for the part of the SUNDIALS 6 / CVODE API that naunet's generated code uses.
// Header-only; every array is sized exactly as requested so that ASan sees any overrun; dense element
// access is bounds-checked.  CVode itself is a scripted mock whose "solution" is y(t) = y0 + t.
#ifndef VT_SUNDIALS_H
#define VT_SUNDIALS_H
#include <cmath>
#include <cstdio>
#include <cstdlib>
#include <cstring>
#include <utility>
#include <vector>

typedef double realtype;
typedef long sunindextype;
typedef int booleantype;

#define VT_ABORT(...)                 \
    do {                              \
        fprintf(stderr, "VT_BOUNDS: " __VA_ARGS__); \
        fprintf(stderr, "\n");        \
        abort();                      \
    } while (0)

struct _vt_SUNContext { int dummy; };
typedef _vt_SUNContext *SUNContext;
inline int SUNContext_Create(void *comm, SUNContext *ctx) { *ctx = new _vt_SUNContext(); return 0; }
inline int SUNContext_Free(SUNContext *ctx) { if (ctx && *ctx) { delete *ctx; *ctx = nullptr; } return 0; }

// ---------------------------------------------------------------- N_Vector (serial)
struct _vt_NVector { realtype *data; sunindextype length; bool own; void *content = nullptr; };
typedef _vt_NVector *N_Vector;
inline N_Vector N_VNewEmpty_Serial(sunindextype n, SUNContext) { return new _vt_NVector{nullptr, n, false}; }
inline N_Vector N_VNew_Serial(sunindextype n, SUNContext) { return new _vt_NVector{(realtype *)calloc(n > 0 ? n : 1, sizeof(realtype)), n, true}; }
inline N_Vector N_VMake_Serial(sunindextype n, realtype *d, SUNContext) { return new _vt_NVector{d, n, false}; }
inline void N_VDestroy(N_Vector v) { if (!v) return; if (v->own) free(v->data); delete v; }
inline void N_VFreeEmpty(N_Vector v) { if (v) delete v; }
inline realtype *N_VGetArrayPointer(N_Vector v) { return v->data; }
inline void N_VSetArrayPointer(realtype *d, N_Vector v) { v->data = d; }
inline void N_VConst(realtype c, N_Vector v) { for (sunindextype i = 0; i < v->length; i++) v->data[i] = c; }

// ---------------------------------------------------------------- SUNMatrix (dense + CSR sparse)
#define CSC_MAT 0
#define CSR_MAT 1
struct _vt_SUNMatrix {
    int kind;  // 0 dense, 1 sparse, 2 block-CSR (cuSPARSE emulation, vt_cuda.h)
    sunindextype M, N, NNZ;
    realtype *data;
    sunindextype *indexvals, *indexptrs;
    int nblocks = 1;
    sunindextype blocknnz = 0;
};
typedef _vt_SUNMatrix *SUNMatrix;
inline SUNMatrix SUNDenseMatrix(sunindextype M, sunindextype N, SUNContext) {
    SUNMatrix A = new _vt_SUNMatrix{0, M, N, M * N, (realtype *)calloc(M * N > 0 ? M * N : 1, sizeof(realtype)), nullptr, nullptr};
    return A;
}
inline realtype &vt_dense_elem(SUNMatrix A, long i, long j) {
    if (!A || A->kind != 0) VT_ABORT("SM_ELEMENT_D on a non-dense matrix");
    if (i < 0 || i >= A->M || j < 0 || j >= A->N) VT_ABORT("dense element (%ld,%ld) outside %ldx%ld", i, j, A->M, A->N);
    return A->data[j * A->M + i];
}
#define SM_ELEMENT_D(A, i, j) vt_dense_elem(A, i, j)
inline SUNMatrix SUNSparseMatrix(sunindextype M, sunindextype N, sunindextype NNZ, int sparsetype, SUNContext) {
    SUNMatrix A = new _vt_SUNMatrix{1, M, N, NNZ, nullptr, nullptr, nullptr};
    // exact sizes on purpose (malloc, not calloc(1)): any access beyond NNZ / M+1 is an ASan report
    A->data = (realtype *)malloc(sizeof(realtype) * NNZ);
    A->indexvals = (sunindextype *)malloc(sizeof(sunindextype) * NNZ);
    A->indexptrs = (sunindextype *)malloc(sizeof(sunindextype) * (M + 1));
    for (sunindextype i = 0; i < NNZ; i++) { A->data[i] = 0.0; A->indexvals[i] = 0; }
    for (sunindextype i = 0; i < M + 1; i++) A->indexptrs[i] = 0;
    return A;
}
inline sunindextype *SUNSparseMatrix_IndexPointers(SUNMatrix A) { return A->indexptrs; }
inline sunindextype *SUNSparseMatrix_IndexValues(SUNMatrix A) { return A->indexvals; }
inline realtype *SUNSparseMatrix_Data(SUNMatrix A) { return A->data; }
inline int SUNMatZero(SUNMatrix A) {
    for (sunindextype i = 0; i < A->NNZ; i++) A->data[i] = 0.0;
    return 0;
}
inline void SUNMatDestroy(SUNMatrix A) {
    if (!A) return;
    free(A->data); free(A->indexvals); free(A->indexptrs);
    delete A;
}

// ---------------------------------------------------------------- linear solvers (dense LU, real)
struct _vt_SUNLinearSolver { int kind; };
typedef _vt_SUNLinearSolver *SUNLinearSolver;
inline SUNLinearSolver SUNLinSol_Dense(N_Vector, SUNMatrix, SUNContext) { return new _vt_SUNLinearSolver{0}; }
inline SUNLinearSolver SUNLinSol_KLU(N_Vector, SUNMatrix, SUNContext) { return new _vt_SUNLinearSolver{1}; }
inline int SUNLinSolSetup(SUNLinearSolver, SUNMatrix) { return 0; }
inline int SUNLinSolFree(SUNLinearSolver S) { delete S; return 0; }
inline int SUNLinSolSolve(SUNLinearSolver, SUNMatrix A, N_Vector x, N_Vector b, realtype) {
    long n = A->M;
    std::vector<double> a(n * n), r(n);
    for (long i = 0; i < n; i++) { r[i] = b->data[i]; for (long j = 0; j < n; j++) a[i * n + j] = A->data[j * A->M + i]; }
    for (long c = 0; c < n; c++) {
        long p = c;
        for (long i = c + 1; i < n; i++) if (std::fabs(a[i * n + c]) > std::fabs(a[p * n + c])) p = i;
        if (p != c) { for (long j = 0; j < n; j++) std::swap(a[c * n + j], a[p * n + j]); std::swap(r[c], r[p]); }
        double d = a[c * n + c];
        for (long i = c + 1; i < n; i++) {
            double f = a[i * n + c] / d;
            for (long j = c; j < n; j++) a[i * n + j] -= f * a[c * n + j];
            r[i] -= f * r[c];
        }
    }
    for (long i = n - 1; i >= 0; i--) {
        double s = r[i];
        for (long j = i + 1; j < n; j++) s -= a[i * n + j] * x->data[j];
        x->data[i] = s / a[i * n + i];
    }
    return 0;
}

// ---------------------------------------------------------------- scripted CVODE mock
#define CV_ADAMS 1
#define CV_BDF 2
// return flags of cvode.h
#define CV_SUCCESS 0
#define CV_TSTOP_RETURN 1
#define CV_ROOT_RETURN 2
#define CV_WARNING 99
#define CV_TOO_MUCH_WORK -1
#define CV_TOO_MUCH_ACC -2
#define CV_ERR_FAILURE -3
#define CV_CONV_FAILURE -4
#define CV_LINIT_FAIL -5
#define CV_LSETUP_FAIL -6
#define CV_LSOLVE_FAIL -7
#define CV_RHSFUNC_FAIL -8
#define CV_FIRST_RHSFUNC_ERR -9
#define CV_REPTD_RHSFUNC_ERR -10
#define CV_UNREC_RHSFUNC_ERR -11
#define CV_RTFUNC_FAIL -12
#define CV_NLS_INIT_FAIL -13
#define CV_NLS_SETUP_FAIL -14
#define CV_CONSTR_FAIL -15
#define CV_NLS_FAIL -16
#define CV_MEM_FAIL -20
#define CV_MEM_NULL -21
#define CV_ILL_INPUT -22
#define CV_NO_MALLOC -23
#define CV_BAD_K -24
#define CV_BAD_T -25
#define CV_BAD_DKY -26
#define CV_TOO_CLOSE -27
#define CV_VECTOROP_ERR -28
#define CV_NORMAL 1
#define CV_ONE_STEP 2
typedef int (*CVRhsFn)(realtype, N_Vector, N_Vector, void *);
typedef int (*CVLsJacFn)(realtype, N_Vector, N_Vector, SUNMatrix, void *, N_Vector, N_Vector, N_Vector);

struct VtCvOutcome { int flag; double frac; };
struct VtTrace { char what; int flag; double tin, tout, tret; };
struct VtScript {
    std::vector<VtCvOutcome> cvode;   // outcome of the i-th CVode call (default: success)
    std::vector<int> reinit;          // outcome of the i-th CVodeReInit call (default: 0)
    std::vector<int> setup;           // outcome of the i-th configuration call (default: 0)
    size_t ic = 0, ir = 0, is = 0;
    bool call_user_fns = false;
    std::vector<VtTrace> trace;
    int created = 0, freed = 0;
};
inline VtScript &vt_script() { static VtScript s; return s; }

struct _vt_CVodeMem { CVRhsFn f; CVLsJacFn jac; void *user; N_Vector y; SUNMatrix A; realtype t; };
inline void *CVodeCreate(int, SUNContext) { vt_script().created++; return new _vt_CVodeMem{nullptr, nullptr, nullptr, nullptr, nullptr, 0.0}; }
inline int vt_next_setup() { VtScript &s = vt_script(); return s.is < s.setup.size() ? s.setup[s.is++] : (s.is++, 0); }
inline int CVodeSetErrFile(void *, FILE *) { return vt_next_setup(); }
inline int CVodeSetMaxNumSteps(void *, long) { return vt_next_setup(); }
inline int CVodeInit(void *m, CVRhsFn f, realtype t0, N_Vector y) { auto *c = (_vt_CVodeMem *)m; c->f = f; c->t = t0; c->y = y; return vt_next_setup(); }
inline int CVodeSStolerances(void *, realtype, realtype) { return vt_next_setup(); }
inline int CVodeSetLinearSolver(void *m, SUNLinearSolver, SUNMatrix A) { ((_vt_CVodeMem *)m)->A = A; return vt_next_setup(); }
inline int CVodeSetJacFn(void *m, CVLsJacFn j) { ((_vt_CVodeMem *)m)->jac = j; return vt_next_setup(); }
inline int CVodeSetUserData(void *m, void *u) { ((_vt_CVodeMem *)m)->user = u; return vt_next_setup(); }
inline int CVode(void *m, realtype tout, N_Vector yout, realtype *tret, int) {
    auto *c = (_vt_CVodeMem *)m;
    VtScript &s = vt_script();
    VtCvOutcome o{0, 1.0};
    if (s.ic < s.cvode.size()) o = s.cvode[s.ic];
    s.ic++;
    if (s.call_user_fns && c->f) {
        N_Vector yd = N_VNew_Serial(yout->length, nullptr);
        c->f(c->t, yout, yd, c->user);
        if (c->jac && c->A) c->jac(c->t, yout, yd, c->A, c->user, nullptr, nullptr, nullptr);
        N_VDestroy(yd);
    }
    double adv = (o.flag < 0) ? (tout - c->t) * o.frac : (tout - c->t);
    for (sunindextype i = 0; i < yout->length; i++) yout->data[i] += adv;
    double tin = c->t;
    c->t = (o.flag < 0) ? c->t + adv : tout;
    *tret = c->t;
    s.trace.push_back(VtTrace{'C', o.flag, tin, tout, c->t});
    return o.flag;
}
inline int CVodeReInit(void *m, realtype t0, N_Vector y) {
    auto *c = (_vt_CVodeMem *)m;
    VtScript &s = vt_script();
    int f = s.ir < s.reinit.size() ? s.reinit[s.ir] : 0;
    s.ir++;
    if (f >= 0) { c->t = t0; c->y = y; }
    s.trace.push_back(VtTrace{'R', f, t0, t0, t0});
    return f;
}
inline void CVodeFree(void **m) { if (m && *m) { delete (_vt_CVodeMem *)*m; *m = nullptr; vt_script().freed++; } }
inline int CVodeGetNumSteps(void *, long *v) { *v = 0; return 0; }
inline int CVodeGetNumRhsEvals(void *, long *v) { *v = 0; return 0; }
inline int CVodeGetNumLinSolvSetups(void *, long *v) { *v = 0; return 0; }
inline int CVodeGetNumErrTestFails(void *, long *v) { *v = 0; return 0; }
inline int CVodeGetNumNonlinSolvIters(void *, long *v) { *v = 0; return 0; }
inline int CVodeGetNumNonlinSolvConvFails(void *, long *v) { *v = 0; return 0; }
inline int CVodeGetNumJacEvals(void *, long *v) { *v = 0; return 0; }
inline int CVodeGetNumGEvals(void *, long *v) { *v = 0; return 0; }
inline int CVodeGetCurrentTime(void *m, realtype *t) { *t = ((_vt_CVodeMem *)m)->t; return 0; }
#endif
