// Host emulation of the small part of CUDA / SUNDIALS-CUDA that naunet's cuSPARSE back-end uses, so that the
// rendered .cu files can be compiled as C++ and *executed* (ASan/UBSan) on a batch of cells.
//   * __global__/__device__/__host__/__constant__ are defined away; blockIdx/threadIdx/blockDim/gridDim are globals
//     set by vt_launch(), which runs every thread of the grid sequentially - one valid schedule of a kernel launch
//     (naunet's kernels use no inter-thread synchronisation).
//   * `Kernel<<<grid, block, shmem, stream>>>(args);` is the only non-C++ syntax; vtlib/cxx/cuda.py rewrites it
//     mechanically to `vt_launch(grid, block, [&] { Kernel(args); });` in the scratch copy it compiles.
//   * device memory is host memory of exactly the requested size (any overrun is an ASan report).
#ifndef VT_CUDA_H
#define VT_CUDA_H
#include "vt_sundials.h"

#define __global__
#define __device__
#define __host__
#define __constant__
#define __forceinline__ inline

// CUDA's math API puts min/max into the global namespace
inline double max(double a, double b) { return a > b ? a : b; }
inline double min(double a, double b) { return a < b ? a : b; }
inline int max(int a, int b) { return a > b ? a : b; }
inline int min(int a, int b) { return a < b ? a : b; }
inline double max(double a, int b) { return a > b ? a : b; }
inline double max(int a, double b) { return a > b ? a : b; }
inline double min(double a, int b) { return a < b ? a : b; }
inline double min(int a, double b) { return a < b ? a : b; }

struct vt_dim3 { unsigned x, y, z; };
inline vt_dim3 &vt_blockIdx() { static vt_dim3 v{0, 0, 0}; return v; }
inline vt_dim3 &vt_threadIdx() { static vt_dim3 v{0, 0, 0}; return v; }
inline vt_dim3 &vt_blockDim() { static vt_dim3 v{1, 1, 1}; return v; }
inline vt_dim3 &vt_gridDim() { static vt_dim3 v{1, 1, 1}; return v; }
#define blockIdx vt_blockIdx()
#define threadIdx vt_threadIdx()
#define blockDim vt_blockDim()
#define gridDim vt_gridDim()

inline long &vt_kernel_threads_run() { static long n = 0; return n; }
template <class F>
inline void vt_launch(size_t grid, size_t block, F body) {
    if (grid == 0 || block == 0) VT_ABORT("kernel launched with an empty grid (%zu x %zu)", grid, block);
    vt_gridDim() = vt_dim3{(unsigned)grid, 1, 1};
    vt_blockDim() = vt_dim3{(unsigned)block, 1, 1};
    for (size_t b = 0; b < grid; b++)
        for (size_t t = 0; t < block; t++) {
            vt_blockIdx() = vt_dim3{(unsigned)b, 0, 0};
            vt_threadIdx() = vt_dim3{(unsigned)t, 0, 0};
            vt_kernel_threads_run()++;
            body();
        }
}

typedef int cudaError_t;
typedef void *cudaStream_t;
enum { cudaSuccess = 0 };
enum cudaMemcpyKind { cudaMemcpyHostToHost, cudaMemcpyHostToDevice, cudaMemcpyDeviceToHost, cudaMemcpyDeviceToDevice };
inline cudaError_t cudaMalloc(void **p, size_t n) { *p = malloc(n ? n : 1); return cudaSuccess; }
inline cudaError_t cudaFree(void *p) { free(p); return cudaSuccess; }
inline cudaError_t cudaMemcpy(void *d, const void *s, size_t n, cudaMemcpyKind) { memcpy(d, s, n); return cudaSuccess; }
inline cudaError_t cudaMemcpyAsync(void *d, const void *s, size_t n, cudaMemcpyKind, cudaStream_t = nullptr) { memcpy(d, s, n); return cudaSuccess; }
inline cudaError_t cudaDeviceSynchronize() { return cudaSuccess; }
inline cudaError_t cudaGetLastError() { return cudaSuccess; }
inline const char *cudaGetErrorName(cudaError_t) { return "cudaSuccess"; }

// ---------------------------------------------------------------- execution policy + CUDA N_Vector
struct VtExecPolicy {
    size_t block = 1;
    size_t grid = 0;  // 0: thread-direct (one thread per work item, as SUNCudaThreadDirectExecPolicy), else a fixed grid (grid-stride policy)
    cudaStream_t stream_ = nullptr;
    cudaStream_t *stream() { return &stream_; }
    size_t blockSize() { return block; }
    size_t gridSize(size_t n) { return grid ? grid : (n + block - 1) / block; }
};
struct _vt_NVectorContent_Cuda { VtExecPolicy *stream_exec_policy; };
typedef _vt_NVectorContent_Cuda *N_VectorContent_Cuda;
inline N_Vector vt_nvector_cuda(sunindextype n, VtExecPolicy *pol) {
    N_Vector v = new _vt_NVector{(realtype *)malloc(sizeof(realtype) * (n > 0 ? n : 1)), n, true};
    v->content = new _vt_NVectorContent_Cuda{pol};
    return v;
}
inline void vt_nvector_cuda_destroy(N_Vector v) { delete (N_VectorContent_Cuda)v->content; N_VDestroy(v); }
inline realtype *N_VGetDeviceArrayPointer_Cuda(N_Vector v) { return v->data; }
inline realtype *N_VGetHostArrayPointer_Cuda(N_Vector v) { return v->data; }
inline void N_VSpace_Cuda(N_Vector v, sunindextype *lrw, sunindextype *liw) { *lrw = v->length; *liw = 2; }

// ---------------------------------------------------------------- block-CSR cuSPARSE matrix (shared pattern, data per block)
inline SUNMatrix vt_cusparse_blockcsr(int nblocks, sunindextype M, sunindextype N, sunindextype blocknnz) {
    SUNMatrix A = new _vt_SUNMatrix{2, M, N, blocknnz * nblocks, nullptr, nullptr, nullptr};
    A->nblocks = nblocks;
    A->blocknnz = blocknnz;
    A->data = (realtype *)malloc(sizeof(realtype) * (blocknnz * nblocks ? blocknnz * nblocks : 1));
    A->indexvals = (sunindextype *)malloc(sizeof(sunindextype) * (blocknnz ? blocknnz : 1));
    A->indexptrs = (sunindextype *)malloc(sizeof(sunindextype) * (M + 1));
    for (sunindextype i = 0; i < blocknnz * nblocks; i++) A->data[i] = NAN;
    for (sunindextype i = 0; i < blocknnz; i++) A->indexvals[i] = -1;
    for (sunindextype i = 0; i < M + 1; i++) A->indexptrs[i] = -1;
    return A;
}
inline realtype *SUNMatrix_cuSparse_Data(SUNMatrix A) { return A->data; }
inline int SUNMatrix_cuSparse_NumBlocks(SUNMatrix A) { return A->nblocks; }
inline int SUNMatrix_cuSparse_BlockNNZ(SUNMatrix A) { return (int)A->blocknnz; }
inline int SUNMatrix_cuSparse_CopyToDevice(SUNMatrix A, realtype *h_data, int *h_idxptrs, int *h_idxvals) {
    if (!A || A->kind != 2) VT_ABORT("SUNMatrix_cuSparse_CopyToDevice on a matrix that is not block-CSR");
    if (h_data) memcpy(A->data, h_data, sizeof(realtype) * A->NNZ);
    // the caller's arrays must hold M+1 / blocknnz entries: read exactly that many (ASan judges the caller's arrays)
    if (h_idxptrs) for (sunindextype i = 0; i < A->M + 1; i++) A->indexptrs[i] = h_idxptrs[i];
    if (h_idxvals) for (sunindextype i = 0; i < A->blocknnz; i++) A->indexvals[i] = h_idxvals[i];
    return 0;
}
#endif
