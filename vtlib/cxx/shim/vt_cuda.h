// Host emulation of the small part of CUDA / SUNDIALS-CUDA that naunet's cuSPARSE back-end uses, so that the
// rendered .cu files can be compiled as C++ and *executed* (ASan/UBSan) on a batch of cells.
//   * __global__/__device__/__host__/__constant__ are defined away; blockIdx/threadIdx/blockDim/gridDim are globals
//     set by vt_launch(), which runs every thread of the grid sequentially - one valid schedule of a kernel launch
//     (naunet's kernels use no inter-thread synchronisation).
//   * `Kernel<<<grid, block, shmem, stream>>>(args);` is the only non-C++ syntax; vtlib/cxx/cuda.py rewrites it
//     mechanically to `vt_launch(grid, block, [&] { Kernel(args); });` in the scratch copy it compiles.
//   * device memory is host memory of exactly the requested size (any overrun is an ASan report).
#ifndef VT_CUDA_H
#define VT_CUDA_H
#include "vt_sundials.h"

#define __global__
#define __device__
#define __host__
#define __constant__
#define __forceinline__ inline

// CUDA's math API puts min/max into the global namespace
inline double max(double a, double b) { return a > b ? a : b; }
inline double min(double a, double b) { return a < b ? a : b; }
inline int max(int a, int b) { return a > b ? a : b; }
inline int min(int a, int b) { return a < b ? a : b; }
inline double max(double a, int b) { return a > b ? a : b; }
inline double max(int a, double b) { return a > b ? a : b; }
inline double min(double a, int b) { return a < b ? a : b; }
inline double min(int a, double b) { return a < b ? a : b; }

struct vt_dim3 { unsigned x, y, z; };
inline vt_dim3 &vt_blockIdx() { static vt_dim3 v{0, 0, 0}; return v; }
inline vt_dim3 &vt_threadIdx() { static vt_dim3 v{0, 0, 0}; return v; }
inline vt_dim3 &vt_blockDim() { static vt_dim3 v{1, 1, 1}; return v; }
inline vt_dim3 &vt_gridDim() { static vt_dim3 v{1, 1, 1}; return v; }
#define blockIdx vt_blockIdx()
#define threadIdx vt_threadIdx()
#define blockDim vt_blockDim()
#define gridDim vt_gridDim()

inline long &vt_kernel_threads_run() { static long n = 0; return n; }
template <class F>
inline void vt_launch(size_t grid, size_t block, F body) {
    if (grid == 0 || block == 0) VT_ABORT("kernel launched with an empty grid (%zu x %zu)", grid, block);
    vt_gridDim() = vt_dim3{(unsigned)grid, 1, 1};
    vt_blockDim() = vt_dim3{(unsigned)block, 1, 1};
    for (size_t b = 0; b < grid; b++)
        for (size_t t = 0; t < block; t++) {
            vt_blockIdx() = vt_dim3{(unsigned)b, 0, 0};
            vt_threadIdx() = vt_dim3{(unsigned)t, 0, 0};
            vt_kernel_threads_run()++;
            body();
        }
}

typedef int cudaError_t;
typedef void *cudaStream_t;
enum { cudaSuccess = 0 };
enum cudaMemcpyKind { cudaMemcpyHostToHost, cudaMemcpyHostToDevice, cudaMemcpyDeviceToHost, cudaMemcpyDeviceToDevice };
inline cudaError_t cudaMalloc(void **p, size_t n) { *p = malloc(n ? n : 1); return cudaSuccess; }
inline cudaError_t cudaFree(void *p) { free(p); return cudaSuccess; }
inline cudaError_t cudaMemcpy(void *d, const void *s, size_t n, cudaMemcpyKind) { memcpy(d, s, n); return cudaSuccess; }
inline cudaError_t cudaMemcpyAsync(void *d, const void *s, size_t n, cudaMemcpyKind, cudaStream_t = nullptr) { memcpy(d, s, n); return cudaSuccess; }
inline cudaError_t cudaDeviceSynchronize() { return cudaSuccess; }
inline cudaError_t cudaGetLastError() { return cudaSuccess; }
inline const char *cudaGetErrorName(cudaError_t) { return "cudaSuccess"; }

inline cudaError_t cudaMallocHost(void **p, size_t n) { *p = malloc(n ? n : 1); return cudaSuccess; }
inline cudaError_t cudaFreeHost(void *p) { free(p); return cudaSuccess; }
inline cudaError_t cudaStreamCreate(cudaStream_t *s) { *s = malloc(1); return cudaSuccess; }
inline cudaError_t cudaStreamDestroy(cudaStream_t s) { free(s); return cudaSuccess; }
typedef void *cusparseHandle_t;
typedef void *cusolverSpHandle_t;
inline int cusparseCreate(cusparseHandle_t *h) { *h = malloc(1); return 0; }
inline int cusparseSetStream(cusparseHandle_t, cudaStream_t) { return 0; }
inline int cusparseDestroy(cusparseHandle_t h) { free(h); return 0; }
inline int cusolverSpCreate(cusolverSpHandle_t *h) { *h = malloc(1); return 0; }
inline int cusolverSpSetStream(cusolverSpHandle_t, cudaStream_t) { return 0; }
inline int cusolverSpDestroy(cusolverSpHandle_t h) { free(h); return 0; }

// ---------------------------------------------------------------- execution policy + CUDA N_Vector
struct VtExecPolicy {
    size_t block = 1;
    size_t grid = 0;  // 0: thread-direct (one thread per work item, as SUNCudaThreadDirectExecPolicy), else a fixed grid (grid-stride policy)
    cudaStream_t stream_ = nullptr;
    cudaStream_t *stream() { return &stream_; }
    size_t blockSize() { return block; }
    size_t gridSize(size_t n) { return grid ? grid : (n + block - 1) / block; }
};
struct SUNCudaThreadDirectExecPolicy : VtExecPolicy {
    SUNCudaThreadDirectExecPolicy(size_t blockDim_, cudaStream_t s = nullptr) { block = blockDim_ ? blockDim_ : 1; grid = 0; stream_ = s; }
};
struct SUNCudaBlockReduceExecPolicy : VtExecPolicy {
    SUNCudaBlockReduceExecPolicy(size_t blockDim_, size_t gridDim_ = 0, cudaStream_t s = nullptr) { block = blockDim_ ? blockDim_ : 1; grid = gridDim_; stream_ = s; }
};
struct _vt_NVectorContent_Cuda { VtExecPolicy *stream_exec_policy; };
typedef _vt_NVectorContent_Cuda *N_VectorContent_Cuda;
inline N_Vector vt_nvector_cuda(sunindextype n, VtExecPolicy *pol) {
    N_Vector v = new _vt_NVector{(realtype *)malloc(sizeof(realtype) * (n > 0 ? n : 1)), n, true};
    v->content = new _vt_NVectorContent_Cuda{pol};
    return v;
}
inline void vt_nvector_cuda_destroy(N_Vector v) { delete (N_VectorContent_Cuda)v->content; N_VDestroy(v); }
inline N_Vector N_VNew_Cuda(sunindextype n, SUNContext) { static VtExecPolicy dflt; return vt_nvector_cuda(n, &dflt); }
inline N_Vector N_VNewEmpty_Cuda(SUNContext) { N_Vector v = new _vt_NVector{nullptr, 0, false}; static VtExecPolicy dflt; v->content = new _vt_NVectorContent_Cuda{&dflt}; return v; }
inline int N_VSetKernelExecPolicy_Cuda(N_Vector v, VtExecPolicy *stream_policy, VtExecPolicy *) {
    if (!v->content) v->content = new _vt_NVectorContent_Cuda{stream_policy};
    ((N_VectorContent_Cuda)v->content)->stream_exec_policy = stream_policy;
    return 0;
}
inline void N_VSetHostArrayPointer_Cuda(realtype *h, N_Vector v) { if (v->own) free(v->data); v->data = h; v->own = false; }  // host == device here
inline void N_VCopyToDevice_Cuda(N_Vector) {}
inline void N_VCopyFromDevice_Cuda(N_Vector) {}
inline realtype *N_VGetDeviceArrayPointer_Cuda(N_Vector v) { return v->data; }
inline realtype *N_VGetHostArrayPointer_Cuda(N_Vector v) { return v->data; }
inline void N_VSpace_Cuda(N_Vector v, sunindextype *lrw, sunindextype *liw) { *lrw = v->length; *liw = 2; }

// ---------------------------------------------------------------- block-CSR cuSPARSE matrix (shared pattern, data per block)
inline SUNMatrix vt_cusparse_blockcsr(int nblocks, sunindextype M, sunindextype N, sunindextype blocknnz) {
    SUNMatrix A = new _vt_SUNMatrix{2, M, N, blocknnz * nblocks, nullptr, nullptr, nullptr};
    A->nblocks = nblocks;
    A->blocknnz = blocknnz;
    A->data = (realtype *)malloc(sizeof(realtype) * (blocknnz * nblocks ? blocknnz * nblocks : 1));
    A->indexvals = (sunindextype *)malloc(sizeof(sunindextype) * (blocknnz ? blocknnz : 1));
    A->indexptrs = (sunindextype *)malloc(sizeof(sunindextype) * (M + 1));
    for (sunindextype i = 0; i < blocknnz * nblocks; i++) A->data[i] = NAN;
    for (sunindextype i = 0; i < blocknnz; i++) A->indexvals[i] = -1;
    for (sunindextype i = 0; i < M + 1; i++) A->indexptrs[i] = -1;
    return A;
}
inline SUNMatrix SUNMatrix_cuSparse_NewBlockCSR(int nblocks, sunindextype M, sunindextype N, sunindextype blocknnz, cusparseHandle_t, SUNContext) { return vt_cusparse_blockcsr(nblocks, M, N, blocknnz); }
inline int SUNMatrix_cuSparse_SetFixedPattern(SUNMatrix, booleantype) { return 0; }
inline SUNLinearSolver SUNLinSol_cuSolverSp_batchQR(N_Vector, SUNMatrix, cusolverSpHandle_t, SUNContext) { return new _vt_SUNLinearSolver{2}; }
inline void SUNLinSol_cuSolverSp_batchQR_GetDeviceSpace(SUNLinearSolver, size_t *a, size_t *b) { *a = 0; *b = 0; }
inline realtype *SUNMatrix_cuSparse_Data(SUNMatrix A) { return A->data; }
inline int SUNMatrix_cuSparse_NumBlocks(SUNMatrix A) { return A->nblocks; }
inline int SUNMatrix_cuSparse_BlockNNZ(SUNMatrix A) { return (int)A->blocknnz; }
inline int SUNMatrix_cuSparse_CopyToDevice(SUNMatrix A, realtype *h_data, int *h_idxptrs, int *h_idxvals) {
    if (!A || A->kind != 2) VT_ABORT("SUNMatrix_cuSparse_CopyToDevice on a matrix that is not block-CSR");
    if (h_data) memcpy(A->data, h_data, sizeof(realtype) * A->NNZ);
    // the caller's arrays must hold M+1 / blocknnz entries: read exactly that many (ASan judges the caller's arrays)
    if (h_idxptrs) for (sunindextype i = 0; i < A->M + 1; i++) A->indexptrs[i] = h_idxptrs[i];
    if (h_idxvals) for (sunindextype i = 0; i < A->blocknnz; i++) A->indexvals[i] = h_idxvals[i];
    return 0;
}
#endif
