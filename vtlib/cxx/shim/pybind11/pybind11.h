// Minimal stand-in for pybind11 (C19: the Python entry points PyWrapSolve / PyWrapRenorm of the rendered naunet.cpp are
// compiled and called from C++). Only what the rendered headers and sources use: array_t + buffer_info with copy semantics of
// array_t(shape, ptr), and a syntactic stand-in for the module definition block.
#ifndef VT_PYBIND11_H
#define VT_PYBIND11_H
#include <cstddef>
#include <stdexcept>  // (pybind11.h brings these in; the rendered sources rely on it)
#include <string>
#include <vector>
#include <sys/types.h>

namespace pybind11 {

struct buffer_info {
    void *ptr;
    std::vector<ssize_t> shape;
};

template <class T>
class array_t {
   public:
    array_t() : p_(nullptr) {}
    // pybind11 copies the data of a raw pointer into a new array
    array_t(std::vector<ssize_t> shape, const T *ptr) : shape_(shape) {
        size_t n = 1;
        for (auto s : shape) n *= (size_t)s;
        own_.assign(ptr, ptr + n);
        p_ = own_.data();
    }
    // a numpy array handed in from Python: a view of the caller's memory
    static array_t view(T *ptr, ssize_t n) {
        array_t a;
        a.p_ = ptr;
        a.shape_ = {n};
        return a;
    }
    array_t(const array_t &o) : own_(o.own_), shape_(o.shape_) { p_ = o.own_.empty() ? o.p_ : own_.data(); }
    array_t &operator=(const array_t &o) {
        own_ = o.own_;
        shape_ = o.shape_;
        p_ = o.own_.empty() ? o.p_ : own_.data();
        return *this;
    }
    buffer_info request() { return buffer_info{(void *)p_, shape_}; }
    const T *data() const { return p_; }
    size_t size() const {
        size_t n = 1;
        for (auto s : shape_) n *= (size_t)s;
        return n;
    }

   private:
    std::vector<T> own_;
    T *p_;
    std::vector<ssize_t> shape_;
};

struct module_ {};
struct arg {
    const char *name;
    arg(const char *n) : name(n) {}
    template <class V>
    arg &operator=(V &&) { return *this; }
};
struct vt_init_tag {};
inline vt_init_tag init() { return {}; }

template <class C>
struct class_ {
    template <class... A>
    class_(module_ &, const char *, A &&...) {}
    template <class... A>
    class_ &def(A &&...) { return *this; }
    template <class... A>
    class_ &def_readwrite(A &&...) { return *this; }
    template <class... A>
    class_ &def_property(A &&...) { return *this; }
};

}  // namespace pybind11

#define PYBIND11_MODULE(name, var) static void vt_pybind11_module_definition(pybind11::module_ &var)
#endif
