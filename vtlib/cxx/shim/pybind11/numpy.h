#include "pybind11.h"
