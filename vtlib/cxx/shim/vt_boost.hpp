// Minimal stand-in for the Boost.uBLAS / Boost.Odeint names naunet's odeint back-end uses.
// Bounds-checked containers, a real LU, and a scripted integrate_adaptive whose "solution" is y(t)=y0+t.
#ifndef VT_BOOST_HPP
#define VT_BOOST_HPP
#include <cmath>
#include <cstdio>
#include <cstdlib>
#include <stdexcept>
#include <utility>
#include <vector>

#define VT_BABORT(...)                \
    do {                              \
        fprintf(stderr, "VT_BOUNDS: " __VA_ARGS__); \
        fprintf(stderr, "\n");        \
        abort();                      \
    } while (0)

template <class T> inline T vt_poison() { return T(); }
template <> inline double vt_poison<double>() { return std::nan(""); }
template <> inline float vt_poison<float>() { return std::nanf(""); }

namespace boost { namespace numeric { namespace ublas {
template <class T> class vector {
    std::vector<T> d_;
   public:
    vector() {}
    // uBLAS leaves the storage of a freshly sized container uninitialised: poison it, so that reading an element that was
    // never assigned is visible (NaN) instead of silently being 0.0
    explicit vector(size_t n) : d_(n, vt_poison<T>()) {}
    vector(size_t n, T v) : d_(n, v) {}
    size_t size() const { return d_.size(); }
    void resize(size_t n) { d_.resize(n); }
    T &operator[](long i) { if (i < 0 || (size_t)i >= d_.size()) VT_BABORT("ublas::vector[%ld] outside size %zu", i, d_.size()); return d_[i]; }
    const T &operator[](long i) const { if (i < 0 || (size_t)i >= d_.size()) VT_BABORT("ublas::vector[%ld] outside size %zu", i, d_.size()); return d_[i]; }
    T &operator()(long i) { return (*this)[i]; }
    const T &operator()(long i) const { return (*this)[i]; }
};
template <class T> class zero_matrix {
   public:
    size_t r_, c_;
    zero_matrix(size_t r, size_t c) : r_(r), c_(c) {}
};
template <class T> class matrix {
    std::vector<T> d_;
    size_t r_, c_;
   public:
    matrix() : r_(0), c_(0) {}
    matrix(size_t r, size_t c) : d_(r * c, vt_poison<T>()), r_(r), c_(c) {}
    matrix &operator=(const zero_matrix<T> &z) { r_ = z.r_; c_ = z.c_; d_.assign(r_ * c_, T()); return *this; }
    size_t size1() const { return r_; }
    size_t size2() const { return c_; }
    T &operator()(long i, long j) { if (i < 0 || (size_t)i >= r_ || j < 0 || (size_t)j >= c_) VT_BABORT("ublas::matrix(%ld,%ld) outside %zux%zu", i, j, r_, c_); return d_[i * c_ + j]; }
    const T &operator()(long i, long j) const { if (i < 0 || (size_t)i >= r_ || j < 0 || (size_t)j >= c_) VT_BABORT("ublas::matrix(%ld,%ld) outside %zux%zu", i, j, r_, c_); return d_[i * c_ + j]; }
};
template <class T> class permutation_matrix {
   public:
    std::vector<T> p_;
    explicit permutation_matrix(size_t n) : p_(n) { for (size_t i = 0; i < n; i++) p_[i] = i; }
    size_t size() const { return p_.size(); }
};
template <class M, class P> int lu_factorize(M &A, P &pm) {
    size_t n = A.size1();
    for (size_t c = 0; c < n; c++) {
        size_t p = c;
        for (size_t i = c + 1; i < n; i++) if (std::fabs(A(i, c)) > std::fabs(A(p, c))) p = i;
        pm.p_[c] = p;
        if (p != c) for (size_t j = 0; j < n; j++) std::swap(A(c, j), A(p, j));
        if (A(c, c) == 0.0) return (int)c + 1;
        for (size_t i = c + 1; i < n; i++) {
            A(i, c) /= A(c, c);
            for (size_t j = c + 1; j < n; j++) A(i, j) -= A(i, c) * A(c, j);
        }
    }
    return 0;
}
template <class M, class P, class V> void lu_substitute(const M &A, const P &pm, V &x) {
    size_t n = A.size1();
    for (size_t c = 0; c < n; c++) if (pm.p_[c] != c) std::swap(x[c], x[pm.p_[c]]);
    for (size_t i = 0; i < n; i++) for (size_t j = 0; j < i; j++) x[i] -= A(i, j) * x[j];
    for (size_t ii = n; ii-- > 0;) {
        for (size_t j = ii + 1; j < n; j++) x[ii] -= A(ii, j) * x[j];
        x[ii] /= A(ii, ii);
    }
}
}}}  // namespace boost::numeric::ublas

struct VtOdeintScript {
    std::vector<long> steps;  // number of steps the i-th integrate_adaptive call takes (default 1)
    size_t i = 0;
    bool call_user_fns = true;
    long observer_calls = 0;
};
inline VtOdeintScript &vt_odeint_script() { static VtOdeintScript s; return s; }

namespace boost { namespace numeric { namespace odeint {
template <class T> struct rosenbrock4 { typedef T value_type; };
template <class T> struct runge_kutta_dopri5 { typedef T value_type; };
template <class S> struct vt_controlled { double atol, rtol; };
template <class S> vt_controlled<S> make_controlled(double atol, double rtol) { return vt_controlled<S>{atol, rtol}; }
template <class S> vt_controlled<S> make_dense_output(double atol, double rtol) { return vt_controlled<S>{atol, rtol}; }
template <class Stepper, class System, class State, class Observer>
size_t integrate_adaptive(Stepper, System sys, State &y, double t0, double t1, double dt, Observer obs) {
    VtOdeintScript &s = vt_odeint_script();
    long n = s.i < s.steps.size() ? s.steps[s.i] : 1;
    s.i++;
    if (s.call_user_fns) {
        State dydt(y.size());
        State dfdt(y.size());
        boost::numeric::ublas::matrix<double> J(y.size(), y.size());
        sys.first(y, dydt, t0);
        sys.second(y, J, t0, dfdt);
    }
    double t = t0;
    s.observer_calls++;
    obs(y, t);
    for (long k = 0; k < n; k++) {
        double h = (t1 - t0) / (double)n;
        for (size_t i = 0; i < y.size(); i++) y[i] += h;
        t = (k == n - 1) ? t1 : t + h;
        s.observer_calls++;
        obs(y, t);
    }
    return (size_t)n;
}
}}}  // namespace boost::numeric::odeint
#endif
