#include "vt_cuda.h"
