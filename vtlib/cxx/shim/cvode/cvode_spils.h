#include "vt_sundials.h"
