"""Ask the real compiler whether a piece of generated text is a well-formed C++ expression/statement.

Used to decide between "my reader cannot parse it" (harness error) and "it is not valid C" (violation).
"""
from __future__ import annotations
import re
import subprocess

_KEYWORDS = {"double", "int", "return", "if", "else", "for", "realtype"}
_MATH = {"pow", "exp", "log", "log10", "sqrt", "fabs", "fmin", "fmax", "abs", "min", "max"}
_ARRAYS = {"y", "k", "kh", "kc", "ydot", "data", "ab", "rptr", "y_cur", "rowptrs", "colvals"}


def compiler_accepts_expr(expr: str, int_macros: dict | None = None) -> tuple[bool, str]:
    int_macros = int_macros or {}
    idents = set(re.findall(r"(?<![\w.])[A-Za-z_]\w*", expr))
    calls = set(re.findall(r"(?<![\w.])([A-Za-z_]\w*)\s*\(", expr))
    lines = ["#include <math.h>"]
    for name, val in int_macros.items():
        if name in idents:
            lines.append(f"#define {name} {val}")
    for c in sorted(calls - _MATH - _KEYWORDS):
        if c not in int_macros:
            lines.append(f"double {c}(...);")
    scal = sorted(i for i in idents - calls - _ARRAYS - _KEYWORDS - set(int_macros) if not re.fullmatch(r"[eE]\d*", i))
    lines.append("double vt_f(double *y, double *k, double *kh, double *kc, double *ydot, double *data, double *ab,")
    lines.append("            double *rptr, double *y_cur, int *rowptrs, int *colvals) {")
    for s in scal:
        lines.append(f"    double {s} = 1.0;")
    lines.append(f"    return ({expr});")
    lines.append("}")
    src = "\n".join(lines) + "\n"
    p = subprocess.run(
        ["clang++", "-x", "c++", "-std=c++14", "-fsyntax-only", "-Wno-everything", "-"],
        input=src,
        capture_output=True,
        text=True,
    )
    return p.returncode == 0, p.stderr[-600:]
