"""Compile-and-run harness (engine A): syntax checks and sanitizer builds of rendered projects against the API shim."""
from __future__ import annotations
import os
import re
import subprocess
from pathlib import Path

SHIM = Path(__file__).resolve().parent / "shim"
CXX = os.environ.get("VT_CXX", "clang++")


def prepare():
    """Nothing to pre-build: the shim is header-only. Verify the compiler is there."""
    p = subprocess.run([CXX, "--version"], capture_output=True, text=True)
    if p.returncode != 0:
        raise RuntimeError("clang++ not available")
    print("compiler:", p.stdout.splitlines()[0])


def syntax_check(proj_dir, files=None, extra_flags=()):
    """clang++ -fsyntax-only on the rendered .cpp files. Returns list of (file, [diagnostic lines])."""
    proj_dir = Path(proj_dir)
    srcs = sorted((proj_dir / "src").glob("*.cpp")) if files is None else [proj_dir / "src" / f for f in files]
    out = []
    for s in srcs:
        cmd = [CXX, "-std=c++14", "-fsyntax-only", "-Wno-everything", "-Wmacro-redefined", "-Werror=macro-redefined",
               "-ferror-limit=5", f"-I{SHIM}", f"-I{proj_dir / 'include'}", *extra_flags, str(s)]
        p = subprocess.run(cmd, capture_output=True, text=True)
        if p.returncode != 0:
            diags = [ln for ln in p.stderr.splitlines() if re.search(r"\b(error|warning):", ln)]
            out.append((s.name, diags or [p.stderr[-300:]]))
    return out


def classify_diag(line):
    """Root-cause class of a clang diagnostic."""
    m = re.search(r"use of undeclared identifier '([^']+)'", line)
    if m:
        return f"undeclared:{m.group(1)}"
    m = re.search(r"no member named '([^']+)'", line)
    if m:
        return f"no-member:{m.group(1)}"
    m = re.search(r"redefinition of '([^']+)'", line)
    if m:
        return f"redefinition:{m.group(1)}"
    m = re.search(r"'([^']+)' macro redefined", line)
    if m:
        return f"macro-redefined:{m.group(1)}"
    m = re.search(r"error: (.*)$", line)
    return "error:" + (re.sub(r"'[^']*'", "'..'", m.group(1))[:60] if m else "unknown")
