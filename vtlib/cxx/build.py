"""Compile-and-run harness (engine A): syntax checks and sanitizer builds of rendered projects against the API shim."""
from __future__ import annotations
import os
import re
import subprocess
from pathlib import Path

SHIM = Path(__file__).resolve().parent / "shim"
CXX = os.environ.get("VT_CXX", "clang++")


def prepare():
    """Nothing to pre-build: the shim is header-only. Verify the compiler is there."""
    p = subprocess.run([CXX, "--version"], capture_output=True, text=True)
    if p.returncode != 0:
        raise RuntimeError("clang++ not available")
    print("compiler:", p.stdout.splitlines()[0])


def syntax_check(proj_dir, files=None, extra_flags=()):
    """clang++ -fsyntax-only on the rendered .cpp files. Returns list of (file, [diagnostic lines])."""
    proj_dir = Path(proj_dir)
    srcs = sorted((proj_dir / "src").glob("*.cpp")) if files is None else [proj_dir / "src" / f for f in files]
    out = []
    for s in srcs:
        cmd = [CXX, "-std=c++14", "-fsyntax-only", "-Wno-everything", "-Wmacro-redefined", "-Werror=macro-redefined",
               "-ferror-limit=5", f"-I{SHIM}", f"-I{proj_dir / 'include'}", *extra_flags, str(s)]
        p = subprocess.run(cmd, capture_output=True, text=True)
        if p.returncode != 0:
            diags = [ln for ln in p.stderr.splitlines() if re.search(r"\b(error|warning):", ln)]
            out.append((s.name, diags or [p.stderr[-300:]]))
    return out


def classify_diag(line):
    """Root-cause class of a clang diagnostic."""
    m = re.search(r"use of undeclared identifier '([^']+)'", line)
    if m:
        return f"undeclared:{m.group(1)}"
    m = re.search(r"no member named '([^']+)'", line)
    if m:
        return f"no-member:{m.group(1)}"
    m = re.search(r"redefinition of '([^']+)'", line)
    if m:
        return f"redefinition:{m.group(1)}"
    m = re.search(r"'([^']+)' macro redefined", line)
    if m:
        return f"macro-redefined:{m.group(1)}"
    m = re.search(r"error: (.*)$", line)
    return "error:" + (re.sub(r"'[^']*'", "'..'", m.group(1))[:60] if m else "unknown")


# ------------------------------------------------------------------------------------ Solve driver (C19)
_CVODE_PARSE = r'''        else if (!strcmp(cmd, "cv")) { int f; double fr; sscanf(line, "%*s %d %la", &f, &fr); vt_script().cvode.push_back(VtCvOutcome{f, fr}); }
        else if (!strcmp(cmd, "ri")) { int f; sscanf(line, "%*s %d", &f); vt_script().reinit.push_back(f); }
        else if (!strcmp(cmd, "su")) { int f; sscanf(line, "%*s %d", &f); vt_script().setup.push_back(f); }
        else if (!strcmp(cmd, "userfns")) { int f; sscanf(line, "%*s %d", &f); vt_script().call_user_fns = f != 0; }
'''
_CVODE_REPORT = r'''            for (auto &t : vt_script().trace) printf("T %c %d %a %a %a\n", t.what, t.flag, t.tin, t.tout, t.tret);
            printf("MEM created=%d freed=%d\n", vt_script().created, vt_script().freed);
'''
_ODEINT_PARSE = r'''        else if (!strcmp(cmd, "st")) { long n; sscanf(line, "%*s %ld", &n); vt_odeint_script().steps.push_back(n); }
        else if (!strcmp(cmd, "userfns")) { int f; sscanf(line, "%*s %d", &f); vt_odeint_script().call_user_fns = f != 0; }
'''
_ODEINT_REPORT = r'''            printf("OBS calls=%ld\n", vt_odeint_script().observer_calls);
'''


def build_solve_driver(proj, sanitize=True, pymodule=False):
    """Compile the rendered project (unchanged sources) + driver against the mock. Returns path of the binary."""
    from ..ratecase import data_fields

    tmpl = (Path(__file__).resolve().parent / "driver_solve.cpp.in").read_text()
    fields = data_fields(proj)
    body = "".join(f"    data.{k} = {1.0 if v is None else v!r};\n" for k, v in fields.items())
    if proj.solver == "odeint":
        rep = {"@@SCRIPT_PARSE@@": _ODEINT_PARSE, "@@SCRIPT_REPORT@@": _ODEINT_REPORT, "@@SCRIPT_RESET@@": "            vt_odeint_script() = VtOdeintScript();\n", "@@EXTRA_INCLUDES@@": ""}
    else:
        rep = {"@@SCRIPT_PARSE@@": _CVODE_PARSE, "@@SCRIPT_REPORT@@": _CVODE_REPORT, "@@SCRIPT_RESET@@": "            vt_script() = VtScript();\n", "@@EXTRA_INCLUDES@@": ""}
    rep["@@DATA_FIELDS@@"] = body
    rep["@@SCRIPT_DECL@@"] = ""
    for k, v in rep.items():
        tmpl = tmpl.replace(k, v)
    drv = proj.path / "vt_driver.cpp"
    drv.write_text(tmpl)
    exe = proj.path / "vt_driver"
    srcs = sorted(str(p) for p in (proj.path / "src").glob("*.cpp"))
    flags = ["-std=c++14", "-O0", "-g", "-fno-omit-frame-pointer", "-Wno-everything"]
    if sanitize:
        flags += ["-fsanitize=address,undefined", "-fno-sanitize-recover=undefined"]
    if pymodule:
        # the Python entry points (PyWrap*) are compiled in, against the pybind11 stand-in of the shim directory
        flags += ["-DPYMODULE", "-DPYMODNAME=vtmodule"]
    cmd = [CXX, *flags, f"-I{SHIM}", f"-I{proj.path / 'include'}", *srcs, str(drv), "-o", str(exe)]
    p = subprocess.run(cmd, capture_output=True, text=True)
    if p.returncode != 0:
        raise BuildError(p.stderr[-3000:])
    return exe


class BuildError(Exception):
    pass


def run_driver(exe, script_text, cwd, timeout=120):
    env = dict(os.environ, ASAN_OPTIONS="detect_leaks=0:abort_on_error=0", UBSAN_OPTIONS="print_stacktrace=1")
    p = subprocess.run([str(exe)], input=script_text, capture_output=True, text=True, cwd=str(cwd), timeout=timeout, env=env)
    return p.returncode, p.stdout, p.stderr


# ------------------------------------------------------------------------------------ Fex/Jac driver (C03 cross-check)
_CVODE_BODY = r'''            N_Vector u = N_VMake_Serial(NEQUATIONS, yy, nullptr);
            N_Vector udot = N_VNew_Serial(NEQUATIONS, nullptr);
            for (int i = 0; i < NEQUATIONS; i++) udot->data[i] = NAN;
            Fex(0.0, u, udot, &data);
            printf("F"); for (int i = 0; i < NEQUATIONS; i++) printf(" %a", udot->data[i]); printf("\n");
#if VT_SPARSE
            SUNMatrix A = SUNSparseMatrix(NEQUATIONS, NEQUATIONS, NNZ, CSR_MAT, nullptr);
            Jac(0.0, u, udot, A, &data, nullptr, nullptr, nullptr);
            printf("RP"); for (int i = 0; i < NEQUATIONS + 1; i++) printf(" %ld", A->indexptrs[i]); printf("\n");
            printf("CV"); for (int i = 0; i < NNZ; i++) printf(" %ld", A->indexvals[i]); printf("\n");
            printf("DA"); for (int i = 0; i < NNZ; i++) printf(" %a", A->data[i]); printf("\n");
#else
            SUNMatrix A = SUNDenseMatrix(NEQUATIONS, NEQUATIONS, nullptr);
            for (long i = 0; i < (long)NEQUATIONS * NEQUATIONS; i++) A->data[i] = NAN;
            Jac(0.0, u, udot, A, &data, nullptr, nullptr, nullptr);
            for (int i = 0; i < NEQUATIONS; i++) for (int j = 0; j < NEQUATIONS; j++) if (SM_ELEMENT_D(A, i, j) != 0.0) printf("J %d %d %a\n", i, j, SM_ELEMENT_D(A, i, j));
#endif
            SUNMatDestroy(A);
            N_VDestroy(udot);
            N_VFreeEmpty(u);
'''
_ODEINT_BODY = r'''            vector_type yv(NEQUATIONS), ydot(NEQUATIONS), dfdt(NEQUATIONS);
            for (int i = 0; i < NEQUATIONS; i++) { yv[i] = yy[i]; ydot[i] = NAN; }
            Fex fex(&data);
            fex(yv, ydot, 0.0);
            printf("F"); for (int i = 0; i < NEQUATIONS; i++) printf(" %a", ydot[i]); printf("\n");
            matrix_type J(NEQUATIONS, NEQUATIONS);
            Jac jac(&data);
            jac(yv, J, 0.0, dfdt);
            for (int i = 0; i < NEQUATIONS; i++) for (int j = 0; j < NEQUATIONS; j++) if (J(i, j) != 0.0) printf("J %d %d %a\n", i, j, J(i, j));
'''


def build_ode_driver(proj, param_values=None, sanitize=True):
    """Compile Fex/Jac/EvalRates (+physics, constants) of the rendered project with the cross-check driver."""
    from ..ratecase import data_fields

    tmpl = (Path(__file__).resolve().parent / "driver_ode.cpp.in").read_text()
    fields = data_fields(proj)
    pv = param_values or {}
    body = "".join(f"    data.{k} = {float(pv.get(k, 1.0 if v is None else v))!r};\n" for k, v in fields.items())
    setf = "".join(f"    if (i < v.size()) data.{k} = v[i]; i++;\n" for k in fields)
    tmpl = tmpl.replace("@@DATA_FIELDS@@", body).replace("@@SET_FIELDS@@", setf).replace("@@BACKEND_BODY@@", _ODEINT_BODY if proj.solver == "odeint" else _CVODE_BODY)
    drv = proj.path / "vt_ode_driver.cpp"
    drv.write_text(tmpl)
    exe = proj.path / "vt_ode_driver"
    want = ["naunet_ode", "naunet_fex", "naunet_jac", "naunet_rates", "naunet_physics", "naunet_constants", "naunet_utilities"]
    srcs = sorted(str(p) for p in (proj.path / "src").glob("*.cpp") if p.stem in want)
    flags = ["-std=c++14", "-O0", "-g", "-fno-omit-frame-pointer", "-Wno-everything", f"-DVT_SPARSE={1 if proj.method == 'sparse' else 0}"]
    if sanitize:
        flags += ["-fsanitize=address,undefined", "-fno-sanitize-recover=undefined"]
    cmd = [CXX, *flags, f"-I{SHIM}", f"-I{proj.path / 'include'}", *srcs, str(drv), "-o", str(exe)]
    p = subprocess.run(cmd, capture_output=True, text=True)
    if p.returncode != 0:
        raise BuildError(p.stderr[-3000:])
    return exe


def parse_ode_output(out):
    blocks, cur = [], None
    for ln in out.splitlines():
        t = ln.split()
        if not t:
            continue
        if t[0] == "K":
            cur = {"K": [float.fromhex(x) for x in t[1:]], "J": {}, "KH": [], "KC": []}
        elif cur is None:
            continue
        elif t[0] in ("KH", "KC", "F", "DA"):
            cur[t[0]] = [float.fromhex(x) for x in t[1:]]
        elif t[0] in ("RP", "CV"):
            cur[t[0]] = [int(x) for x in t[1:]]
        elif t[0] == "J":
            cur["J"][(int(t[1]), int(t[2]))] = float.fromhex(t[3])
        elif t[0] == "END":
            blocks.append(cur)
            cur = None
    return blocks


def build_renorm_driver(proj, sanitize=True):
    tmpl = (Path(__file__).resolve().parent / "driver_renorm.cpp.in").read_text()
    drv = proj.path / "vt_renorm_driver.cpp"
    drv.write_text(tmpl)
    exe = proj.path / "vt_renorm_driver"
    srcs = sorted(str(p) for p in (proj.path / "src").glob("*.cpp"))
    flags = ["-std=c++14", "-O0", "-g", "-fno-omit-frame-pointer", "-Wno-everything"]
    if sanitize:
        flags += ["-fsanitize=address,undefined", "-fno-sanitize-recover=undefined"]
    p = subprocess.run([CXX, *flags, f"-I{SHIM}", f"-I{proj.path / 'include'}", *srcs, str(drv), "-o", str(exe)], capture_output=True, text=True)
    if p.returncode != 0:
        raise BuildError(p.stderr[-3000:])
    return exe
