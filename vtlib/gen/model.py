"""Abstract chemistry model + Hypothesis strategies (engine G).

Everything generated here is plain JSON-able data.  Nothing in this module imports naunet.

Abstract species  : {"k": "mol"|"e"|"grain", "t": [[sym,count],...], "q": charge, "s": surface?, "l": label, "g": group}
Abstract reaction : {"r": [pool idx...], "p": [pool idx...], "pseudo": [marker...], "type": int,
                     "a","b","c": float, "tmin","tmax": float, "idx": int}
"""
from __future__ import annotations
from hypothesis import strategies as st

GAS_ELEMENTS = ["H", "D", "He", "C", "N", "O", "F", "Na", "Mg", "Al", "Si", "P", "S", "Cl", "Ar", "Ca", "Fe", "Ni"]
# mass numbers (protons+neutrons) of the most abundant isotope, as the repo's periodictable.csv has them
MASSNUM = {
    "H": 1, "D": 2, "He": 4, "C": 12, "N": 14, "O": 16, "F": 19, "Na": 23, "Mg": 24, "Al": 27,
    "Si": 28, "P": 31, "S": 32, "Cl": 35, "Ar": 40, "Ca": 40, "Fe": 56, "Ni": 59,
}
# gas-phase names that have an entry in the RATE12 binding-energy table (needed to render ice species)
ICE_SAFE = [
    [["H", 1]], [["H", 2]], [["C", 1]], [["N", 1]], [["O", 1]], [["C", 1], ["H", 1]], [["C", 1], ["H", 2]],
    [["C", 1], ["H", 4]], [["N", 1], ["H", 1]], [["N", 1], ["H", 3]], [["O", 1], ["H", 1]], [["H", 2], ["O", 1]],
    [["C", 1], ["O", 1]], [["N", 2]], [["O", 2]], [["C", 1], ["O", 2]], [["H", 1], ["C", 1], ["O", 1]],
    [["H", 2], ["C", 1], ["O", 1]], [["C", 1], ["H", 3], ["O", 1], ["H", 1]], [["H", 1], ["C", 1], ["N", 1]],
    [["S", 1]], [["H", 2], ["S", 1]], [["C", 1], ["S", 1]], [["S", 1], ["O", 1]], [["N", 1], ["O", 1]], [["He", 1]],
    [["Si", 1]], [["Si", 1], ["O", 1]], [["Mg", 1]], [["Fe", 1]],
]
PSEUDO_MARKERS = ["CR", "CRP", "PHOTON", "CRPHOT", "Photon"]
LABELS = ["o", "p", "m"]


def spell(sp, eletter="e-", sprefix="#"):
    if sp["k"] == "e":
        return eletter
    q = sp.get("q", 0)
    ch = "+" * q if q > 0 else "-" * (-q)
    if sp["k"] == "grain":
        return f"GRAIN{sp.get('g', 0)}{ch}"
    body = "".join(sym + (str(n) if n != 1 else "") for sym, n in sp["t"])
    x = sp.get("x", "")  # excited-state marker '*' (suffix) or cyclic / linear marker 'c-' / 'l-' (prefix)
    pre_x = x if x in ("c-", "l-") else ""
    suf_x = x if x == "*" else ""
    # ice on a grain-size group other than 0 carries the group number after the surface prefix (#1CO)
    pre = (sprefix + (str(sp["sg"]) if sp.get("sg") else "")) if sp.get("s") else ""
    return f"{pre}{sp.get('l', '')}{pre_x}{body}{suf_x}{ch}"


def composition(sp):
    """element -> count (electrons and grains have none; labels/prefix carry none)."""
    comp = {}
    if sp["k"] == "mol":
        for sym, n in sp["t"]:
            comp[sym] = comp.get(sym, 0) + n
    return comp


def charge(sp):
    return -1 if sp["k"] == "e" else sp.get("q", 0)


def identity(sp):
    """Generator-side identity of a species (what must get exactly one slot)."""
    if sp["k"] == "e":
        return ("e",)
    if sp["k"] == "grain":
        return ("grain", sp.get("g", 0), sp.get("q", 0))
    ident = ("mol", tuple(tuple(t) for t in sp["t"]), sp.get("q", 0), bool(sp.get("s")), sp.get("l", "") + sp.get("x", ""))
    # the same molecule frozen on two grain-size groups is two species
    return ident + (("sg", sp["sg"]),) if sp.get("s") and sp.get("sg") else ident


# ------------------------------------------------------------------------------------ strategies
@st.composite
def gas_molecule(draw, elements=None, max_tokens=3, allow_label=True, charges=(0, 0, 0, 1, -1, 2)):
    elements = elements or GAS_ELEMENTS
    n = draw(st.integers(1, max_tokens))
    toks = []
    for _ in range(n):
        sym = draw(st.sampled_from(elements))
        cnt = draw(st.sampled_from([1, 1, 1, 2, 2, 3, 4, 10, 12]))
        toks.append([sym, cnt])
    # merge adjacent equal symbols so that the spelling has one reading (HH -> H2)
    merged = []
    for sym, c in toks:
        if merged and merged[-1][0] == sym:
            merged[-1][1] += c
        else:
            merged.append([sym, c])
    lab = ""
    # ortho/para/meta labels only make sense on molecules (an "ortho atom" is not a species anybody writes)
    if allow_label and sum(c for _, c in merged) >= 2 and draw(st.integers(0, 9)) == 0:
        lab = draw(st.sampled_from(LABELS))
    return {"k": "mol", "t": merged, "q": draw(st.sampled_from(list(charges))), "s": False, "l": lab}


@st.composite
def ice_molecule(draw):
    return {"k": "mol", "t": [list(t) for t in draw(st.sampled_from(ICE_SAFE))], "q": 0, "s": True, "l": ""}


@st.composite
def species_pool(draw, min_size=2, max_size=10, elements=None, with_ice=True, with_grain=True, with_electron=True):
    elements = elements or draw(
        st.lists(st.sampled_from(GAS_ELEMENTS), min_size=2, max_size=5, unique=True)
    )
    n = draw(st.integers(min_size, max_size))
    pool = []
    seen = set()

    def add(sp):
        i = identity(sp)
        if i not in seen:
            seen.add(i)
            pool.append(sp)

    if with_electron and draw(st.booleans()):
        add({"k": "e"})
    if with_grain and draw(st.integers(0, 5)) == 0:
        add({"k": "grain", "g": 0, "q": draw(st.sampled_from([0, 0, -1, 1]))})
    if draw(st.integers(0, 7)) == 0:
        # an excited / cyclic state next to its ground state (H2 and H2*, C3H2 and c-C3H2): two species, two slots
        base = draw(gas_molecule(elements, max_tokens=2, allow_label=False, charges=(0,)))
        if sum(c for _, c in base["t"]) >= 2:
            add(base)
            add(dict(base, t=[list(t) for t in base["t"]], x=draw(st.sampled_from(["*", "*", "c-", "l-"]))))
    tries = 0
    while len(pool) < n and tries < 4 * n:
        tries += 1
        kind = draw(st.integers(0, 9))
        if with_ice and kind <= 1:
            sp = draw(ice_molecule())
            add(sp)
            if draw(st.booleans()):
                add(dict(sp, s=False))  # its gas counterpart
            # the same ice on another grain-size group (not next to explicit grain species, which are all of group 0 here:
            # naunet refuses ices on a group that has no grain species when grain species are tracked)
            if draw(st.integers(0, 3)) == 0 and not any(x["k"] == "grain" for x in pool):
                add(dict(sp, sg=draw(st.sampled_from([1, 2, 12]))))
        else:
            add(draw(gas_molecule(elements)))
    return pool


GAS_TYPES = [100, 100, 100, 101, 102, 110, 111, 120]


@st.composite
def reaction(draw, npool, types=None, allow_pseudo=True, max_products=5):
    types = types or GAS_TYPES
    nr = draw(st.sampled_from([1, 2, 2, 2, 3]))
    np_ = draw(st.sampled_from([0, 1, 1, 2, 2, 3, 4, max_products]))
    idxs = st.integers(0, npool - 1)
    r = [draw(idxs) for _ in range(nr)]
    # repeated reactants are the interesting case: force them sometimes
    if nr >= 2 and draw(st.integers(0, 3)) == 0:
        r[1] = r[0]
    p = [draw(idxs) for _ in range(np_)]
    # catalysts: copy a reactant into the products sometimes
    if p and draw(st.integers(0, 3)) == 0:
        p[0] = r[0]
    pseudo = []
    if allow_pseudo and nr <= 2 and draw(st.integers(0, 4)) == 0:
        pseudo = [draw(st.sampled_from(PSEUDO_MARKERS))]
    coef = st.sampled_from([0.0, 1.0, -1.0, 2.5e-10, -3.0, 0.5, 1e-17, 7.7e3])
    tw = draw(st.sampled_from([(-1.0, -1.0), (-1.0, -1.0), (10.0, 300.0), (0.0, 41000.0), (100.0, -1.0), (-1.0, 50.0)]))
    return {
        "r": r,
        "p": p,
        "pseudo": pseudo,
        "type": draw(st.sampled_from(types)),
        "a": draw(coef),
        "b": draw(coef),
        "c": draw(coef),
        "tmin": tw[0],
        "tmax": tw[1],
        "idx": -1,
    }


@st.composite
def network(draw, max_species=10, max_reactions=12, thermal=True, modifiers=False):
    pool = draw(species_pool(max_size=max_species))
    nre = draw(st.integers(0, max_reactions))
    reacs = [draw(reaction(len(pool))) for _ in range(nre)]
    if reacs and draw(st.integers(0, 3)) == 0:
        # exact duplicate reaction
        reacs.append(dict(reacs[draw(st.integers(0, len(reacs) - 1))]))
    indexed = draw(st.sampled_from(["none", "all", "all", "some"]))
    if indexed != "none":
        base = draw(st.integers(0, 50))
        for i, rc in enumerate(reacs):
            if indexed == "all" or draw(st.booleans()):
                rc["idx"] = base + i
    used = {i for rc in reacs for i in rc["r"] + rc["p"]}
    unused = [i for i in range(len(pool)) if i not in used]
    required = [i for i in unused if draw(st.booleans())]
    if used and draw(st.integers(0, 3)) == 0:
        # extra species may also be named although they react (config: species.required / --extra-species)
        required += draw(st.lists(st.sampled_from(sorted(used)), min_size=1, max_size=2))
    if required and draw(st.integers(0, 4)) == 0:
        required.append(required[0])  # ... and a species may be named twice
    case = {
        "pool": pool,
        "reactions": reacs,
        "required": required,
        "eletter": draw(st.sampled_from(["e-", "e-", "E"])),
        "cooling": [],
        "heating": [],
        "ode_mod": [],
    }
    present = sorted(used | set(required))
    pick = st.sampled_from(present) if present else None
    if thermal and present and draw(st.integers(0, 2)) == 0:
        # synthetic thermal processes over pool species (injected through the public hook points)
        nt = draw(st.integers(1, 3))
        for j in range(nt):
            nreact = draw(st.integers(1, 3))
            rs = [draw(pick) for _ in range(nreact)]
            if nreact >= 2 and draw(st.booleans()):
                rs[1] = rs[0]
            entry = {"r": rs, "rate": draw(st.sampled_from(["1.5e-22 * sqrt(Temp)", "2.0e-27", "3e-21 * exp(-1e5/Temp)"]))}
            (case["cooling"] if draw(st.booleans()) else case["heating"]).append(entry)
    if modifiers and present and draw(st.integers(0, 1)) == 0:
        nm = draw(st.integers(1, 3))
        for _ in range(nm):
            tgt = draw(pick)
            ndep = draw(st.sampled_from([0, 1, 1, 2, 2, 3]))
            deps = [draw(pick) for _ in range(ndep)]
            if ndep >= 2 and draw(st.integers(0, 2)) == 0:
                deps[1] = deps[0]
            fact = draw(st.sampled_from(["-2.0 * nH", "0.5*zeta", "1.0e-17", "-3.0", "nH * 2.0 - 1.0", "Tgas/300.0", "-nH + 0.5 * zeta", "-2.0 * nH - zeta", "-(nH - zeta) * 0.5"]))
            case["ode_mod"].append({"target": tgt, "factor": fact, "deps": deps, "ealt": draw(st.integers(0, 2)) == 0})
    return case


# ------------------------------------------------------------------------------------ balanced networks
SURFACE_REACTIONS = [
    # (reactant token lists, product token lists), all members in ICE_SAFE
    ([[["H", 1]], [["H", 1]]], [[["H", 2]]]),
    ([[["C", 1]], [["O", 1]]], [[["C", 1], ["O", 1]]]),
    ([[["O", 1]], [["H", 1]]], [[["O", 1], ["H", 1]]]),
    ([[["O", 1], ["H", 1]], [["H", 1]]], [[["H", 2], ["O", 1]]]),
    ([[["C", 1], ["O", 1]], [["O", 1]]], [[["C", 1], ["O", 2]]]),
    ([[["N", 1]], [["H", 1]]], [[["N", 1], ["H", 1]]]),
    ([[["N", 1]], [["N", 1]]], [[["N", 2]]]),
    ([[["C", 1]], [["H", 1]]], [[["C", 1], ["H", 1]]]),
]


def _mol(tokens, q=0, s=False, l=""):
    return {"k": "mol", "t": [list(t) for t in tokens], "q": q, "s": s, "l": l}


@st.composite
def balanced_network(draw, max_reactions=10):
    """Networks whose every reaction conserves each element and the net charge *by construction*."""
    elements = draw(st.lists(st.sampled_from(["H", "D", "He", "C", "N", "O", "S", "Si", "Mg", "Fe", "Cl", "Na"]), min_size=2, max_size=4, unique=True))
    if "H" not in elements and draw(st.booleans()):
        elements[0] = "H"
    pool = []
    index = {}

    def intern(sp):
        i = identity(sp)
        if i not in index:
            index[i] = len(pool)
            pool.append(sp)
        return index[i]

    eidx = None
    reactions = []
    nre = draw(st.integers(1, max_reactions))
    for _ in range(nre):
        kind = draw(st.sampled_from(["gas", "gas", "gas", "ion", "ion", "freeze", "desorb", "surface", "excite"] * 2 + ["twin"]))
        if kind == "twin":
            # two species whose names (and index macros) differ only in letter case: para-H2 `pH2` next to the phosphorus hydride `PH2`,
            # ortho-D2 `oD2` next to heavy water `OD2`: X B2 (q) -> X (q) + <label>B2
            lab, el, base = draw(st.sampled_from([("p", "P", "H"), ("p", "P", "D"), ("o", "O", "H"), ("o", "O", "D")]))
            q = draw(st.sampled_from([0, 0, 1]))
            r = [intern(_mol([[el, 1], [base, 2]], q=q))]
            p = [intern(_mol([[el, 1]], q=q)), intern(_mol([[base, 2]], l=lab))]
            if draw(st.booleans()):
                r, p = p, r
        elif kind == "excite":
            # X* -> X (de-excitation) or X + M -> X* + M (collisional excitation): balanced, two distinct species
            base = draw(gas_molecule(elements, max_tokens=2, allow_label=False, charges=(0,)))
            if sum(c for _, c in base["t"]) < 2:
                base["t"] = [["H", 2]]
            g = intern(base)
            x = intern(dict(base, t=[list(t) for t in base["t"]], x="*"))
            if draw(st.booleans()) or not pool:
                r, p = [x], [g]
            else:
                m = draw(st.sampled_from([i for i in range(len(pool)) if not pool[i].get("s")]))
                r, p = [g, m], [x, m]
        elif kind in ("freeze", "desorb"):
            toks = draw(st.sampled_from(ICE_SAFE))
            g, ice = intern(_mol(toks)), intern(_mol(toks, s=True))
            r, p = ([g], [ice]) if kind == "freeze" else ([ice], [g])
        elif kind == "surface":
            rt, pt = draw(st.sampled_from(SURFACE_REACTIONS))
            r = [intern(_mol(t, s=True)) for t in rt]
            p = [intern(_mol(t, s=True)) for t in pt]
        else:
            nr = draw(st.sampled_from([1, 2, 2, 3]))
            rs = []
            for _j in range(nr):
                if pool and draw(st.integers(0, 2)) > 0:
                    cand = [i for i, s in enumerate(pool) if not s.get("s")]
                    if cand:
                        rs.append(draw(st.sampled_from(cand)))
                        continue
                qs = (0, 0, 1, -1) if kind == "ion" else (0,)
                sp = draw(gas_molecule(elements, max_tokens=2, allow_label=True, charges=qs))
                rs.append(intern(sp))
            if kind == "ion" and draw(st.booleans()):
                rs[-1] = intern({"k": "e"})
            if len(rs) >= 2 and draw(st.integers(0, 3)) == 0:
                rs[1] = rs[0]
            # total atoms and charge
            atoms = []
            q = 0
            for i in rs:
                sp = pool[i]
                q += charge(sp)
                for sym, n in sp.get("t", []) if sp["k"] == "mol" else []:
                    atoms += [sym] * n
            if not atoms:
                # only electrons: e- + e- -> e- + e-
                r, p = rs, list(rs)
            else:
                atoms = draw(st.permutations(atoms))
                ngroups = draw(st.integers(1, min(4, len(atoms))))
                cuts = sorted(draw(st.lists(st.integers(1, len(atoms) - 1), min_size=ngroups - 1, max_size=ngroups - 1, unique=True))) if len(atoms) > 1 and ngroups > 1 else []
                groups = [atoms[a:b] for a, b in zip([0] + cuts, cuts + [len(atoms)])]
                prods = []
                for g in groups:
                    toks = []
                    for sym in sorted(set(g), key=g.index):
                        toks.append([sym, g.count(sym)])
                    big = [t for t in toks if t[1] >= 2]
                    if len(toks) >= 2 and big and draw(st.integers(0, 3)) == 0:
                        # structural formula: the same element named twice (CH3OH, HCOOH): counts add up over the tokens
                        t0 = big[0]
                        rest = [t for t in toks if t is not t0]
                        toks = [[t0[0], t0[1] - 1]] + rest + [[t0[0], 1]]
                    prods.append(_mol(toks))
                # distribute the charge: positive charge on the first product, negative as electrons or anion
                extra_e = 0
                if q > 0:
                    prods[0]["q"] = q
                elif q < 0:
                    if draw(st.booleans()):
                        prods[0]["q"] = q
                    else:
                        extra_e = -q
                # optionally ionise: X -> X+ + e-
                if q == 0 and kind == "ion" and draw(st.booleans()):
                    prods[0]["q"] = 1
                    extra_e = 1
                if len(prods) + extra_e > 5:
                    continue
                r = rs
                p = [intern(x) for x in prods] + [intern({"k": "e"})] * extra_e
        reactions.append(
            {"r": r, "p": p, "pseudo": [], "type": 100, "a": 1e-10, "b": 0.0, "c": 0.0, "tmin": -1.0, "tmax": -1.0, "idx": -1}
        )
    for rc in reactions:
        if any(pool[i]["k"] == "e" for i in rc["r"] + rc["p"]) and draw(st.integers(0, 2)) == 0:
            rc["ealt"] = True  # this reaction spells the electron the other way (e- / E)
    required = []
    if draw(st.integers(0, 2)) == 0:
        # extra species that also take part in reactions, possibly named twice
        required = draw(st.lists(st.integers(0, len(pool) - 1), min_size=1, max_size=3))
    return {
        "pool": pool,
        "reactions": reactions,
        "required": required,
        "eletter": draw(st.sampled_from(["e-", "E"])),
        "cooling": [],
        "heating": [],
        "ode_mod": [],
        "route": draw(st.sampled_from(["api", "file"])),
    }
