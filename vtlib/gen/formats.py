"""Encoders (abstract reaction -> one line) for the six input formats, written from the format
layouts (inverse of naunet's parsers; never imports them), plus my own copy of the code tables.

Abstract line reaction ("lr"):
  {"fmt", "r": [names], "p": [names], "markers_r": [(pos, token)], "a","b","c", "tmin","tmax", "idx",
   "code": format code (kida formula int / umist code str / leeds rtype int / uclchem keyword or "" / naunet type int)}
"""
from __future__ import annotations

# ---- published code tables (my copy) -> basic reaction-type codes
T_TWOBODY, T_CR, T_PHOTON, T_3B, T_IP1, T_IP2, T_CRPHOT, T_XRAY = 100, 101, 102, 103, 110, 111, 120, 130
T_FREEZE, T_THERM, T_CRDES, T_PHDES, T_REACDES, T_H2DES, T_RECOMB, T_ECAP = 200, 201, 202, 203, 204, 210, 220, 221
T_SURF2B, T_SURFCR, T_SURFPH, T_DIFF = 300, 301, 302, 310

KIDA_FORMULA = {1: T_CR, 2: T_PHOTON, 3: T_TWOBODY, 4: T_IP1, 5: T_IP2, 6: T_3B}
UMIST_CODE = {
    "AD": T_TWOBODY, "CD": T_TWOBODY, "CE": T_TWOBODY, "CP": T_CR, "CR": T_CRPHOT, "DR": T_TWOBODY,
    "IN": T_TWOBODY, "MN": T_TWOBODY, "NN": T_TWOBODY, "PH": T_PHOTON, "RA": T_TWOBODY, "REA": T_TWOBODY,
    "RR": T_TWOBODY,
}
UMIST_MARKER = {"CP": "CRP", "CR": "CRPHOT", "PH": "PHOTON"}
LEEDS_RTYPE = {
    1: T_TWOBODY, 2: T_CR, 3: T_CRPHOT, 4: T_PHOTON, 5: T_XRAY, 6: T_RECOMB, 7: T_FREEZE, 8: T_THERM,
    9: T_CRDES, 10: T_PHDES, 11: T_SURFCR, 12: T_SURFPH, 13: T_SURF2B, 14: T_REACDES, 20: T_ECAP,
}
UCL_KEYWORD = {
    "": T_TWOBODY, "CRP": T_CR, "PHOTON": T_PHOTON, "CRPHOT": T_CRPHOT, "FREEZE": T_FREEZE, "DESOH2": T_H2DES,
    "DESCR": T_CRDES, "DEUVCR": T_PHDES, "THERM": T_THERM, "DIFF": T_DIFF, "CHEMDES": T_REACDES,
}


def expected_type(fmt, code):
    if fmt == "kida":
        return KIDA_FORMULA[code]
    if fmt == "umist":
        return UMIST_CODE[code]
    if fmt == "leeds":
        return LEEDS_RTYPE.get(code)
    if fmt == "uclchem":
        return UCL_KEYWORD[code]
    if fmt == "naunet":
        return code
    if fmt == "krome":
        return 999
    raise ValueError(fmt)


def _cells(lr, n_r, n_p, filler=""):
    """Reactant / product cells with marker tokens inserted at their positions."""
    r = list(lr["r"])
    for pos, tok in sorted(lr.get("markers_r", [])):
        r.insert(min(pos, len(r)), tok)
    p = list(lr["p"])
    for pos, tok in sorted(lr.get("markers_p", [])):
        p.insert(min(pos, len(p)), tok)
    if len(r) > n_r or len(p) > n_p:
        raise ValueError("too many species for the format")
    return r + [filler] * (n_r - len(r)), p + [filler] * (n_p - len(p))


def fnum(x, style="e"):
    """Number spellings a reaction file may use."""
    if style == "e":
        return f"{x:.3e}"
    if style == "E":
        return f"{x:.3E}"
    if style == "r":
        return repr(float(x))
    if style == "f":
        return f"{x:.4f}"
    raise ValueError(style)


def parse_back(text):
    """The value a decimal spelling denotes (what a faithful decoder must recover)."""
    return float(text)


# ------------------------------------------------------------------------------------ native
def encode_naunet(lr, padded=True, source="naunet"):
    r, p = _cells(lr, 3, 5)
    if padded:
        cells = [f"{lr['idx']:<5}"] + [f"{x:>12}" for x in r + p]
        nums = [f"{lr['a']:10.3e}", f"{lr['b']:10.3e}", f"{lr['c']:10.3e}", f"{lr['tmin']:9.2f}", f"{lr['tmax']:9.2f}"]
        tail = [f"{lr['code']:>4}", f"{source:>8}"]
    else:
        cells = [f"{lr['idx']}"] + r + p
        nums = [repr(float(lr[k])) for k in ("a", "b", "c", "tmin", "tmax")]
        tail = [f"{lr['code']}", source]
    return ",".join(cells + nums + tail)


def from_case_reaction(rc, names):
    """netcase reaction -> line reaction in the native format (full precision through repr)."""
    return {
        "fmt": "naunet",
        "r": [names[i] for i in rc["r"]],
        "p": [names[i] for i in rc["p"]],
        "markers_r": [(1 + k, m) for k, m in enumerate(rc.get("pseudo", []))],
        "a": rc["a"],
        "b": rc["b"],
        "c": rc["c"],
        "tmin": rc["tmin"],
        "tmax": rc["tmax"],
        "idx": rc.get("idx", -1),
        "code": rc["type"],
    }


# ------------------------------------------------------------------------------------ KIDA
def encode_kida(lr, numstyle="e"):
    """3 reactant cells + 5 product cells of 11 characters (names <= 10), a blank after each group,
    then alpha beta gamma F g type itype Tmin Tmax formula number nbabg recommendation."""
    r, p = _cells(lr, 3, 5)
    for n in r + p:
        if len(n) > 10:
            raise ValueError("KIDA names are at most 10 characters")
    rs = "".join(f"{n:<11}" for n in r)
    ps = "".join(f"{n:<11}" for n in p)

    def num(x):
        s = fnum(x, numstyle)
        return s if s.startswith("-") else " " + s

    fields = [
        num(lr["a"]),
        num(lr["b"]),
        num(lr["c"]),
        "2.00e+00",
        "0.00e+00",
        "logn",
        f"{lr.get('itype', 4):>2d}",
        f"{int(lr['tmin']):>6d}",
        f"{int(lr['tmax']):>6d}",
        f"{lr['code']:>2d}",
        f"{lr['idx']:>5d}",
        "1",
        " 1",
    ]
    return rs + " " + ps + " " + " ".join(fields)


# ------------------------------------------------------------------------------------ UMIST
def encode_umist(lr, numstyle="e"):
    """idx:code:R1:R2:P1:P2:P3:P4:NE:alpha:beta:gamma:Tl:Tu:ST:ACC:REF"""
    r, p = _cells(lr, 2, 4)
    a = fnum(lr["a"], numstyle)
    b = f"{lr['b']:.2f}" if numstyle != "r" else repr(float(lr["b"]))
    c = f"{lr['c']:.1f}" if numstyle != "r" else repr(float(lr["c"]))
    return ":".join(
        [str(lr["idx"]), lr["code"], *r, *p, "1", a, b, c, str(int(lr["tmin"])), str(int(lr["tmax"])), "L", "C", '"ref"', "", ""]
    )


# ------------------------------------------------------------------------------------ Leeds
def encode_leeds(lr, idx_right=False):
    """fixed columns: idx(5) reactants(3x10) products(5x10) alpha(8) beta(9) gamma(10) Tlo(5) Thi(5) type(3)."""
    r, p = _cells(lr, 3, 5)
    for n in r + p:
        if len(n) > 9:
            raise ValueError("Leeds names are at most 9 characters")
    a = f"{lr['a']:8.2E}"
    b = f"{lr['b']:9.2f}"
    c = f"{lr['c']:10.1f}"
    lo = f"{int(lr['tmin']):5d}"
    hi = f"{int(lr['tmax']):5d}"
    for s, w in ((a, 8), (b, 9), (c, 10), (lo, 5), (hi, 5)):
        if len(s) != w:
            raise ValueError("value does not fit its Leeds column")
    idx = f"{lr['idx']:>5d}" if idx_right else f"{lr['idx']:<5d}"
    if len(idx) != 5:
        raise ValueError("index does not fit")
    return idx + "".join(f"{n:<10}" for n in r) + "".join(f"{n:<10}" for n in p) + a + b + c + lo + hi + f"{lr['code']:3d}"


def leeds_values(lr):
    """Values a faithful decoder recovers from the printed columns."""
    return dict(a=float(f"{lr['a']:8.2E}"), b=float(f"{lr['b']:9.2f}"), c=float(f"{lr['c']:10.1f}"))


# ------------------------------------------------------------------------------------ UCLCHEM
def encode_uclchem(lr, numstyle="r"):
    """R1,R2|keyword,R3,P1,P2,P3,P4,alpha,beta,gamma,Tmin,Tmax  (NAN fills empty cells)."""
    r = list(lr["r"])
    if lr["code"]:
        if len(r) > 2:
            raise ValueError("the keyword occupies a reactant cell")
        if len(r) == 2 and lr["code"] in ("DIFF", "CHEMDES"):
            # two-body surface processes carry their keyword in the third reactant cell (#H,#CO,DIFF,#HCO,...)
            r = [r[0], r[1], lr["code"]]
        else:
            r = [r[0], lr["code"]] + r[1:]
    p = list(lr["p"])
    if len(r) > 3 or len(p) > 4:
        raise ValueError("too many species")
    r += ["NAN"] * (3 - len(r))
    p += ["NAN"] * (4 - len(p))
    nums = [fnum(lr[k], numstyle) for k in ("a", "b", "c")] + [repr(float(lr["tmin"])), repr(float(lr["tmax"]))]
    return ",".join(r + p + nums)


# ------------------------------------------------------------------------------------ KROME
def encode_krome(lr, order, tmin_txt, tmax_txt, rate="1.0d-10"):
    """order: list of column keys, e.g. ['idx','r','r','r','p','p','p','p','tmin','tmax','rate']."""
    nr, np_ = order.count("r"), order.count("p")
    r, p = _cells(lr, nr, np_)
    ri, pi = iter(r), iter(p)
    out = []
    for k in order:
        if k == "idx":
            out.append(str(lr["idx"]))
        elif k == "r":
            out.append(next(ri))
        elif k == "p":
            out.append(next(pi))
        elif k == "tmin":
            out.append(tmin_txt)
        elif k == "tmax":
            out.append(tmax_txt)
        elif k == "rate":
            out.append(rate)
    return ",".join(out)
