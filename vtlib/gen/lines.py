"""Strategies for well-formed reaction *lines* / *files* of the six input formats (for C07, C18, C05, C06)."""
from __future__ import annotations
from hypothesis import strategies as st

from . import model as M
from . import formats as F

FORMATS = ["kida", "umist", "leeds", "uclchem", "krome", "naunet"]
NAME_LIMIT = {"kida": 10, "umist": 12, "leeds": 9, "uclchem": 12, "krome": 12, "naunet": 12}
N_REACT = {"kida": 3, "umist": 2, "leeds": 3, "uclchem": 3, "krome": 3, "naunet": 3}
N_PROD = {"kida": 5, "umist": 4, "leeds": 5, "uclchem": 4, "krome": 5, "naunet": 5}
ELECTRON = {"kida": "e-", "umist": "e-", "leeds": "e-", "uclchem": "E-", "krome": "E", "naunet": "e-"}
MARKERS = {
    "kida": ["CR", "CRP", "Photon"],
    "umist": ["CRP", "CRPHOT", "PHOTON"],
    "leeds": ["CRP", "CRPHOT", "PHOTON", "XRAY", "M"],
    "uclchem": [],
    "krome": [],
    "naunet": ["CR", "CRP", "PHOTON", "CRPHOT"],
}
NAUNET_TYPES = [100, 101, 102, 103, 110, 111, 120, 130, 200, 201, 202, 203, 204, 210, 220, 221, 300, 301, 302, 310, 999]

COEF = st.one_of(
    st.sampled_from([0.0, 1.0, -1.0, 2.5e-10, -3.0, 0.5, -0.5, 1e-17, 7.75e3, 30450.0, -26.5, 1.23e-9, 9.99e-1]),
    st.floats(min_value=-1e5, max_value=1e5, allow_nan=False, allow_infinity=False).map(lambda x: float(f"{x:.3e}")),
    st.floats(min_value=1e-18, max_value=1e-6).map(lambda x: float(f"{x:.3e}")),
)


@st.composite
def species_name(draw, fmt, elements):
    lim = NAME_LIMIT[fmt]
    for _ in range(8):
        if draw(st.integers(0, 7)) == 0:
            return ELECTRON[fmt]
        if fmt in ("krome", "uclchem", "naunet") and draw(st.integers(0, 9)) == 0:
            return "#" + draw(st.sampled_from(["CO", "H2O", "H2", "CH4", "H"]))  # ice species carry the '#' prefix
        if fmt == "leeds" and draw(st.integers(0, 9)) == 0:
            return "G" + draw(st.sampled_from(["CO", "H2O", "H2", "CH4", "H"]))  # the Leeds format writes ice species with 'G'
        sp = draw(M.gas_molecule(elements, max_tokens=3, allow_label=(fmt in ("kida", "naunet")), charges=(0, 0, 0, 1, -1, 2)))
        n = M.spell(sp)
        if len(n) <= lim:
            return n
    return "H2"


DEFAULT_ELEMENTS = ["e", "E", "H", "D", "He", "C", "N", "O", "F", "Na", "Mg", "Al", "Si", "P", "S", "Cl", "Ar", "Ca", "Fe", "Ni"]
DEFAULT_PSEUDO = ["CR", "CRP", "XRAY", "Photon", "PHOTON", "CRPHOT", "X", "M", "p", "o", "m", "c-", "l-", r"\*", "g"]
EXTRA_MARKERS = ["FREEZE", "DESORB", "VTMARK"]


@st.composite
def line_reaction(draw, fmt, elements=None, extra_markers=()):
    elements = elements or ["H", "He", "C", "N", "O", "Si", "S", "Mg", "Cl", "D"]
    nr_max, np_max = N_REACT[fmt], N_PROD[fmt]
    code = None
    markers = []
    if fmt == "kida":
        code = draw(st.sampled_from([1, 2, 3, 3, 3, 4, 5, 6]))
    elif fmt == "umist":
        code = draw(st.sampled_from(sorted(F.UMIST_CODE)))
    elif fmt == "leeds":
        code = draw(st.sampled_from(sorted(F.LEEDS_RTYPE)))
    elif fmt == "uclchem":
        code = draw(st.sampled_from(["", "", "", "CRP", "PHOTON", "CRPHOT", "FREEZE", "DESOH2", "DESCR", "DEUVCR", "THERM", "DIFF", "CHEMDES"]))
    elif fmt == "naunet":
        code = draw(st.sampled_from(NAUNET_TYPES))
    elif fmt == "krome":
        code = 999
    nr = draw(st.integers(1, nr_max))
    if fmt == "uclchem" and code:
        nr = 2 if code in ("DIFF", "CHEMDES") and draw(st.integers(0, 3)) > 0 else draw(st.integers(1, 2))
    # marker tokens occupy a reactant cell
    if (MARKERS[fmt] or extra_markers) and fmt not in ("uclchem", "krome") and nr < nr_max and draw(st.integers(0, 3)) == 0:
        tok = draw(st.sampled_from(list(MARKERS[fmt]) + list(extra_markers)))
        if fmt == "umist":
            tok = F.UMIST_MARKER.get(code, tok)
        markers = [(draw(st.integers(1, nr)), tok)]
    if fmt == "umist" and code in F.UMIST_MARKER and not markers and nr < nr_max:
        markers = [(1, F.UMIST_MARKER[code])]
    np_ = draw(st.integers(0 if fmt in ("naunet", "kida", "krome") else 1, np_max))
    r = [draw(species_name(fmt, elements)) for _ in range(nr)]
    if nr >= 2 and draw(st.integers(0, 3)) == 0:
        r[1] = r[0]
    p = [draw(species_name(fmt, elements)) for _ in range(np_)]
    ints = fmt in ("kida", "umist", "leeds")
    tw = draw(
        st.sampled_from(
            [(-9999, 9999), (10, 300), (10, 41000), (0, 0), (5, 100), (100, 3000), (1015, 41000), (-1, -1)]
            if ints
            else [(-1.0, -1.0), (10.0, 300.0), (0.0, 41000.0), (157.35, 11604.52), (2.73, -1.0), (-1.0, 50.0)]
        )
    )
    if fmt == "leeds":
        tw = (max(tw[0], 0), min(max(tw[1], 0), 99999))
    lr = {
        "fmt": fmt,
        "r": r,
        "p": p,
        "markers_r": markers,
        "a": draw(COEF),
        "b": draw(COEF),
        "c": draw(COEF),
        "tmin": tw[0],
        "tmax": tw[1],
        "idx": draw(st.integers(1, 99999 if fmt in ("kida", "leeds") else 999999)),
        "code": code,
    }
    if fmt == "uclchem":
        lr["idx"] = -1
    if fmt == "leeds":
        # values must fit the fixed columns: alpha 8 (x.xxE+xx), beta 9 (.2f), gamma 10 (.1f)
        lr["a"] = abs(lr["a"])
        if lr["a"] != 0.0 and not (1e-99 < lr["a"] < 1e99):
            lr["a"] = 1.0e-10
        lr["b"] = max(-9999.0, min(9999.0, lr["b"]))
        lr["c"] = max(-999999.0, min(999999.0, lr["c"]))
    return lr


KROME_TMIN = [("NONE", -1.0), ("N", -1.0), ("10", 10.0), ("1.d2", 100.0), (">1d3", 1000.0), (".GE.5.5d3", 5500.0), ("2.73", 2.73), (".GT.30", 30.0), ("", -1.0), (".5d2", 50.0), (">.12d3", 120.0),
              ("1.0d+1", 10.0), ("5.00e+01", 50.0), (">1.0e+2", 100.0)]  # explicitly signed exponents (what ES/D edit descriptors and %e print)
KROME_TMAX = [("NONE", -1.0), ("N", -1.0), ("300", 300.0), ("1.d4", 10000.0), ("<1d3", 1000.0), (".LE.5.5d3", 5500.0), (".LT.8000", 8000.0), ("1e8", 1e8), ("", -1.0), (".8d4", 8000.0), ("<.55e4", 5500.0),
              ("1.0d+3", 1000.0), ("2.5E+02", 250.0), ("<1.5d+03", 1500.0)]
KROME_RATES = ["1.0d-10", "4.67e-10*(T32)**(-5.000e-01)*exp(-3.040e+04*invT)", "3.5d-12*exp(-1.d0*invT)", "1.2d-17*sqrt(Tgas)", "auto"]


@st.composite
def krome_file(draw, nmax=12):
    """A KROME file: @format directives (changing in mid-file), @var/@common, comments, blank lines."""
    lines = []
    expected = []
    order = None
    n = draw(st.integers(1, nmax))
    elements = ["H", "He", "C", "O", "D"]

    def new_format():
        with_idx = draw(st.booleans())
        nr = draw(st.integers(1, 3))
        np_ = draw(st.integers(1, 5))
        cols = (["idx"] if with_idx else []) + ["r"] * nr + ["p"] * np_
        tm = draw(st.sampled_from([[], ["tmin", "tmax"]]))
        cols += tm + ["rate"]
        spell = draw(st.sampled_from(["lower", "upper", "mixed"]))
        names = {"idx": "idx", "r": "R", "p": "P", "tmin": "Tmin", "tmax": "Tmax", "rate": "rate"}
        toks = []
        for c in cols:
            t = names[c]
            toks.append(t.lower() if spell == "lower" else t.upper() if spell == "upper" else t)
        # (a blank after the commas of the directive, as after the commas of a data line)
        return cols, "@format:" + (", " if draw(st.integers(0, 5)) == 0 else ",").join(toks)

    standard = draw(st.integers(0, 3)) == 0
    if standard:
        # no directive: KROME's standard column layout
        order = ["idx", "r", "r", "r", "p", "p", "p", "p", "tmin", "tmax", "rate"]
    else:
        order, fl = new_format()
        lines.append(fl)
    for i in range(n):
        k = draw(st.integers(0, 9))
        if k == 0:
            lines.append(draw(st.sampled_from(["", "   ", "\t"])))
        elif k == 1:
            lines.append(draw(st.sampled_from(["# a comment, with commas", "//another comment", "#", "  # an indented comment, with commas", "\t// indented", "    #"])))
        elif k == 2:
            lines.append(draw(st.sampled_from(["@var: vt_x = 2.0*Tgas", "@common: vt_user_crate,vt_user_Av", "@var:vt_y=1d0/vt_x"])))
        elif k == 3 and i > 0:
            order, fl = new_format()
            lines.append(fl)
        nr, np_ = order.count("r"), order.count("p")
        r = [draw(species_name("krome", elements)) for _ in range(draw(st.integers(1, nr)))]
        p = [draw(species_name("krome", elements)) for _ in range(draw(st.integers(1, np_)))]
        if "idx" not in order and r[0].startswith("#"):
            r[0] = r[0][1:]  # a line that *starts* with '#' is a comment by the format's own rule
        tmin = draw(st.sampled_from(KROME_TMIN)) if "tmin" in order else ("", -1.0)
        tmax = draw(st.sampled_from(KROME_TMAX)) if "tmax" in order else ("", -1.0)
        lr = {"fmt": "krome", "r": r, "p": p, "markers_r": [], "a": 0.0, "b": 0.0, "c": 0.0, "tmin": tmin[1], "tmax": tmax[1],
              "idx": draw(st.integers(1, 9999)) if "idx" in order else -1, "code": 999}
        rate = draw(st.sampled_from(KROME_RATES))
        pad = draw(st.sampled_from([("", "")] * 6 + [("  ", ""), ("\t", "  "), ("", "   ")]))  # KROME strips each line
        lines.append(pad[0] + F.encode_krome(lr, order, tmin[0], tmax[0], rate) + pad[1])
        lr["rate"] = rate
        expected.append(lr)
    return {"fmt": "krome", "lines": lines, "expected": expected, "trailing_newline": draw(st.booleans()), "standard_layout": standard}


@st.composite
def reaction_file(draw, fmt=None, nmax=12):
    fmt = fmt or draw(st.sampled_from(FORMATS))
    if fmt == "krome":
        return draw(krome_file(nmax))
    n = draw(st.integers(1, nmax))
    custom = draw(st.integers(0, 3)) == 0
    extra = EXTRA_MARKERS if custom else ()
    lrs = [draw(line_reaction(fmt, extra_markers=extra)) for _ in range(n)]
    lines = []
    variant = {}
    if fmt == "leeds":
        variant["idx_right"] = draw(st.booleans())
    if fmt == "naunet":
        variant["padded"] = draw(st.booleans())
    if fmt in ("kida", "umist"):
        variant["numstyle"] = draw(st.sampled_from(["e", "E"]))
    for lr in lrs:
        if draw(st.integers(0, 5)) == 0:
            lines.append(draw(st.sampled_from(["", "   ", "\t", " " * 40])))
        lines.append(encode(lr, variant))
    if draw(st.integers(0, 3)) == 0:
        lines.append("")
    case = {"fmt": fmt, "lines": lines, "expected": lrs, "variant": variant, "trailing_newline": draw(st.booleans())}
    if custom:
        # user-configured symbol lists: the defaults plus extra marker tokens
        case["elements"] = list(DEFAULT_ELEMENTS)
        case["pseudo_elements"] = list(DEFAULT_PSEUDO) + list(EXTRA_MARKERS)
    return case


def encode(lr, variant=None):
    variant = variant or {}
    fmt = lr["fmt"]
    if fmt == "kida":
        return F.encode_kida(lr, variant.get("numstyle", "e"))
    if fmt == "umist":
        return F.encode_umist(lr, variant.get("numstyle", "e"))
    if fmt == "leeds":
        return F.encode_leeds(lr, idx_right=variant.get("idx_right", False))
    if fmt == "uclchem":
        return F.encode_uclchem(lr)
    if fmt == "naunet":
        return F.encode_naunet(lr, padded=variant.get("padded", True))
    raise ValueError(fmt)


def printed_values(lr, variant=None):
    """The numbers a faithful decoder recovers from the line as printed (a, b, c, tmin, tmax)."""
    variant = variant or {}
    fmt = lr["fmt"]
    if fmt == "kida":
        s = variant.get("numstyle", "e")
        return [float(F.fnum(lr[k], s)) for k in "abc"] + [float(int(lr["tmin"])), float(int(lr["tmax"]))]
    if fmt == "umist":
        s = variant.get("numstyle", "e")
        return [float(F.fnum(lr["a"], s)), float(f"{lr['b']:.2f}"), float(f"{lr['c']:.1f}"), float(int(lr["tmin"])), float(int(lr["tmax"]))]
    if fmt == "leeds":
        v = F.leeds_values(lr)
        return [v["a"], v["b"], v["c"], float(int(lr["tmin"])), float(int(lr["tmax"]))]
    if fmt == "uclchem":
        tm = [float(lr["tmin"]), float(lr["tmax"])]
        if lr["code"] == "FREEZE":
            tm = [0.0, 30.0]  # documented forced window for freeze-out
        return [float(lr["a"]), float(lr["b"]), float(lr["c"])] + tm
    if fmt == "naunet":
        if variant.get("padded", True):
            return [float(f"{lr['a']:10.3e}"), float(f"{lr['b']:10.3e}"), float(f"{lr['c']:10.3e}"), float(f"{lr['tmin']:9.2f}"), float(f"{lr['tmax']:9.2f}")]
        return [float(lr[k]) for k in ("a", "b", "c", "tmin", "tmax")]
    if fmt == "krome":
        return [0.0, 0.0, 0.0, float(lr["tmin"]), float(lr["tmax"])]
    raise ValueError(fmt)
