"""Abstract network case -> real naunet Network -> rendered projects; plus reference polynomials.

The reference model uses only the abstract case (generator-side data).  The single deliberate
exception: a species' slot is located through the rendered macro IDX_<Species(name).alias>
(naming/uniqueness is C09's subject).
"""
from __future__ import annotations
import shutil
import tempfile
from fractions import Fraction
from pathlib import Path

from .gen import model as M
from .ctext.poly import Poly
from .ctext.extract import Project, BACKENDS

ODE_TEMPLATES = {
    "cvode": [
        "include/naunet_macros.h.j2",
        "src/naunet_fex.cpp.j2",
        "src/naunet_jac.cpp.j2",
        "src/naunet_rates.cpp.j2",
        "src/naunet_renorm.cpp.j2",
        "src/naunet_physics.cpp.j2",
    ],
    "odeint": [
        "include/naunet_macros.h.j2",
        "src/naunet_ode.cpp.j2",
        "src/naunet_renorm.cpp.j2",
        "src/naunet_physics.cpp.j2",
    ],
}


def reset_naunet_state():
    """Reset the process-global state naunet keeps (top of every in-process case)."""
    from naunet.species import Species
    from naunet import chemistrydata

    Species.reset()
    chemistrydata.user_binding_energy.clear()
    chemistrydata.user_photon_yield.clear()
    chemistrydata.user_enthalpy.clear()
    try:
        from naunet.reactions.kromereaction import KROMEReaction

        KROMEReaction.initialize()
    except Exception:
        pass


# upper-case symbol lists with a renaming table (UCLCHEM / old UMIST style): case["upper"] = "elements" | "pseudo" says where the
# electron symbol is listed
UPPER_REPLACEMENT = {"E": "e", "HE": "He", "SI": "Si", "MG": "Mg", "FE": "Fe", "CL": "Cl", "NA": "Na", "CA": "Ca", "AR": "Ar", "NI": "Ni", "AL": "Al"}
UPPER_PSEUDO = ["CR", "CRP", "PHOTON", "CRPHOT", "o", "p", "m", "c-", "l-", r"\*"]


def upper_lists(case):
    syms = sorted({sym.upper() for sp in case["pool"] if sp["k"] == "mol" for sym, _ in sp["t"]} | {"H"})
    if case.get("upper") == "pseudo":
        return syms, ["E"] + UPPER_PSEUDO
    return ["E"] + syms, list(UPPER_PSEUDO)


def names_of(case):
    if case.get("upper"):
        # the names as the user writes them: upper-case symbols, electron E- (naunet renames them: HE -> He, E- -> e-)
        return [M.spell(dict(sp, t=[[sym.upper(), n] for sym, n in sp["t"]]) if sp["k"] == "mol" else sp, eletter="E-") for sp in case["pool"]]
    return [M.spell(sp, eletter=case.get("eletter", "e-")) for sp in case["pool"]]


def names_for_reaction(case, rc):
    """Per-reaction spellings: a reaction may use the alternative electron spelling (e- / E)."""
    names = names_of(case)
    if rc.get("ealt") and not case.get("upper"):
        alt = "E" if case.get("eletter", "e-") == "e-" else "e-"
        names = [alt if sp["k"] == "e" else n for sp, n in zip(case["pool"], names)]
    return names


def build_reactions(case):
    from naunet.reactions.reaction import Reaction
    from naunet.reactiontype import ReactionType

    out = []
    for rc in case["reactions"]:
        names = names_for_reaction(case, rc)
        rn = [names[i] for i in rc["r"]]
        # pseudo-reactants may sit in any reactant position
        for k, mk in enumerate(rc.get("pseudo", [])):
            rn.insert(min(len(rn), 1 + k), mk)
        pn = [names[i] for i in rc["p"]]
        out.append(
            Reaction(
                rn,
                pn,
                temp_min=rc["tmin"],
                temp_max=rc["tmax"],
                alpha=rc["a"],
                beta=rc["b"],
                gamma=rc["c"],
                reaction_type=ReactionType(rc["type"]),
                idxfromfile=rc.get("idx", -1),
            )
        )
    return out


def ode_modifier_dict(case):
    names = names_of(case)
    d = {}
    for m in case.get("ode_mod", []):
        t = names[m["target"]]
        ent = d.setdefault(t, {"factors": [], "reactants": []})
        ent["factors"].append(m["factor"])
        deps = [names[i] for i in m["deps"]]
        if m.get("ealt") and not case.get("upper"):
            # the user names the electron by its other spelling (E / e-): one species for naunet, whatever the network's files say
            deps = [("E" if n == "e-" else "e-") if case["pool"][i]["k"] == "e" else n for i, n in zip(m["deps"], deps)]
        ent["reactants"].append(deps)
    return d


class ThermalPatch:
    """Inject synthetic ThermalProcess objects through naunet.network.get_allowed_heating/cooling."""

    def __init__(self, case):
        self.case = case

    def __enter__(self):
        import naunet.network as nn
        from naunet.thermalprocess import ThermalProcess

        names = names_of(self.case)
        self._old = (nn.get_allowed_heating, nn.get_allowed_cooling)
        heat = {f"VT_H{j}": ThermalProcess([names[i] for i in e["r"]], e["rate"]) for j, e in enumerate(self.case.get("heating", []))}
        cool = {f"VT_C{j}": ThermalProcess([names[i] for i in e["r"]], e["rate"]) for j, e in enumerate(self.case.get("cooling", []))}
        nn.get_allowed_heating = lambda spl: heat
        nn.get_allowed_cooling = lambda spl: cool
        return self

    def __exit__(self, *a):
        import naunet.network as nn

        nn.get_allowed_heating, nn.get_allowed_cooling = self._old


def build_network(case, **kw):
    from naunet.network import Network

    if case.get("upper"):
        from naunet.species import Species

        el, ps = upper_lists(case)
        # (with the electron among the pseudo-elements its symbol is not renamed: it stays the marker the user listed)
        Species._replacement = {k: v for k, v in UPPER_REPLACEMENT.items() if not (k == "E" and case["upper"] == "pseudo")}
        kw = dict(kw, elements=el, pseudo_elements=ps)
        Species.set_known_elements(list(el))
        Species.set_known_pseudoelements(list(ps))
    names = names_of(case)
    reacs = build_reactions(case)
    net = Network(
        reactions=reacs,
        required_species=[names[i] for i in case.get("required", [])],
        heating=[f"VT_H{j}" for j in range(len(case.get("heating", [])))],
        cooling=[f"VT_C{j}" for j in range(len(case.get("cooling", [])))],
        ode_modifier=ode_modifier_dict(case),
        rate_modifier={int(k): v for k, v in case.get("rate_mod", {}).items()},
        **kw,
    )
    return net


def render(net, outdir, backends=BACKENDS, templates="ode", jac_pattern=False, name="vtproj", path_as_str=False):
    """Render through the public TemplateLoader.render; returns {method: Project}."""
    from naunet.templateloader import TemplateLoader

    projs = {}
    for solver, method, device in backends:
        p = Path(outdir) / method
        p.mkdir(parents=True, exist_ok=True)
        tl = TemplateLoader(solver, method, device)
        tmpl = ODE_TEMPLATES[solver] if templates == "ode" else None
        # the signature takes `path: Path | str`
        tl.render(name, net, templates=tmpl, path=str(p) if path_as_str else p, jac_pattern=jac_pattern)
        projs[method] = Project(p, solver, method, device)
    return projs


class Scratch:
    def __enter__(self):
        self.dir = tempfile.mkdtemp(prefix="vt-")
        return Path(self.dir)

    def __exit__(self, *a):
        shutil.rmtree(self.dir, ignore_errors=True)


# ------------------------------------------------------------------------------------ reference
def slot_of(case, proj):
    """pool index -> slot, via the alias macro (documented trusted exception)."""
    from naunet.species import Species

    names = names_of(case)
    idx = proj.idx_table()
    out = {}
    for i, n in enumerate(names):
        cands = [n]
        if case["pool"][i]["k"] == "e" and not case.get("upper"):
            cands = ["e-", "E"]  # one species, either spelling may have named the slot
        for c in cands:
            al = Species(c).alias
            if al in idx:
                out[i] = idx[al]
                break
    return out


def reference_rhs(case, slots, neq, nspec):
    """slot -> Poly: mass-action law of the abstract network (+ thermal row, + ODE modifiers)."""
    ref = {s: Poly() for s in range(neq)}
    for ri, rc in enumerate(case["reactions"]):
        mono = Poly.atom(f"k[{ri}]")
        for i in rc["r"]:
            mono = mono * Poly.atom(f"y[{slots[i]}]")
        for i in rc["r"]:
            ref[slots[i]] = ref[slots[i]] - mono
        for i in rc["p"]:
            ref[slots[i]] = ref[slots[i]] + mono
    for m in case.get("ode_mod", []):
        from .ctext.lexer import parse_expression
        from .ctext.poly import ast_to_poly

        term = ast_to_poly(parse_expression(m["factor"]))
        for i in m["deps"]:
            term = term * Poly.atom(f"y[{slots[i]}]")
        ref[slots[m["target"]]] = ref[slots[m["target"]]] + term
    heat, cool = case.get("heating", []), case.get("cooling", [])
    if heat or cool:
        tot = Poly()
        for j, e in enumerate(heat):
            t = Poly.atom(f"kh[{j}]")
            for i in e["r"]:
                t = t * Poly.atom(f"y[{slots[i]}]")
            tot = tot + t
        for j, e in enumerate(cool):
            t = Poly.atom(f"kc[{j}]")
            for i in e["r"]:
                t = t * Poly.atom(f"y[{slots[i]}]")
            tot = tot - t
        pref = (Poly.atom("gamma") - Poly.const(1)) * Poly.atom("kerg", -1) * Poly.atom("npar", -1)
        ref[nspec] = pref * tot
    return ref


def abridge(case):
    names = names_of(case)

    def rstr(rc):
        l = " + ".join([names[i] for i in rc["r"]] + list(rc.get("pseudo", [])))
        r = " + ".join(names[i] for i in rc["p"])
        return f"{l} -> {r} [type {rc['type']}, idx {rc.get('idx', -1)}]"

    d = {
        "species": names,
        "reactions": [rstr(rc) for rc in case["reactions"]][:8],
        "n_reactions": len(case["reactions"]),
        "required": [names[i] for i in case.get("required", [])],
    }
    if case.get("cooling") or case.get("heating"):
        d["thermal"] = {"heating": len(case.get("heating", [])), "cooling": len(case.get("cooling", []))}
    if case.get("ode_mod"):
        d["ode_mod"] = [
            {"target": names[m["target"]], "factor": m["factor"], "deps": [names[i] for i in m["deps"]]}
            for m in case["ode_mod"]
        ]
    return d


def network_features(case):
    labs = []
    rs = case["reactions"]
    if not rs:
        labs.append("empty-network")
    if any(len(set(r["r"])) < len(r["r"]) for r in rs):
        labs.append("repeated-reactant")
    if any(len(r["r"]) >= 3 for r in rs):
        labs.append("three-body")
    if any(set(r["r"]) & set(r["p"]) for r in rs):
        labs.append("catalyst")
    if any(r.get("pseudo") for r in rs):
        labs.append("pseudo-reactant")
    seen = set()
    for r in rs:
        k = (tuple(sorted(r["r"])), tuple(sorted(r["p"])))
        if k in seen:
            labs.append("duplicate-reaction")
            break
        seen.add(k)
    if case.get("required"):
        labs.append("required-unreacting")
    if case.get("heating") or case.get("cooling"):
        labs.append("thermal")
    if case.get("heating"):
        labs.append("heating")
    if any(sp.get("s") for sp in case["pool"]):
        labs.append("ice-species")
    if any(sp["k"] == "grain" for sp in case["pool"]):
        labs.append("grain-species")
    if any(sp["k"] == "e" for sp in case["pool"]):
        labs.append("electron")
    if any(len(m["deps"]) >= 2 for m in case.get("ode_mod", [])):
        labs.append("modifier-multidep")
    if case.get("ode_mod"):
        labs.append("modifier")
    return labs
