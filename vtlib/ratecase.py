"""Render a network's rate functions and evaluate them with engine B (numeric mode)."""
from __future__ import annotations
import math
import os
import re
import tempfile
from pathlib import Path

from .ctext.extract import Project
from .ctext.interp import Interp, CArray, c_exp, c_pow, c_sqrt, c_div
from .ctext.lexer import parse_expression
from .ctext.cfile import strip_comments

_HDRS = ["include/naunet_macros.h.j2", "include/naunet_data.h.j2", "include/naunet_constants.h.j2", "include/naunet_ode.h.j2",
         "include/naunet_physics.h.j2", "include/naunet_utilities.h.j2", "include/naunet_renorm.h.j2", "include/naunet.h.j2"]
RATE_TEMPLATES = {
    "cvode": _HDRS + ["src/naunet_rates.cpp.j2", "src/naunet_constants.cpp.j2", "src/naunet_fex.cpp.j2", "src/naunet_physics.cpp.j2"],
    "odeint": _HDRS + ["src/naunet_ode.cpp.j2", "src/naunet_constants.cpp.j2", "src/naunet_physics.cpp.j2"],
}


# deterministic stand-ins for the table-driven helpers (same functions on the reference side)
def stub_shielding(idx, h2col, spcol, tgas, method):
    return 0.25 + 0.5 / (1.0 + 1e-21 * float(h2col)) + 1e-3 * float(idx) + 1e-26 * float(spcol) + (0.05 if method else 0.0) + 1e-7 * float(tgas)


def stub_scattering(av, lam):
    return math.exp(-0.3 * float(av)) * float(lam) / 1000.0


def stub_wavelength(h2col, cocol):
    return 950.0 + 50.0 / (1.0 + 1e-21 * float(h2col)) + 1e-20 * float(cocol)


STUBS = {
    "GetShieldingFactor": stub_shielding,
    "GetGrainScattering": stub_scattering,
    "GetCharactWavelength": stub_wavelength,
}


def render_rates(net, outdir, backends=(("cvode", "dense", "cpu"), ("odeint", "rosenbrock4", "cpu")), name="vtproj"):
    from naunet.templateloader import TemplateLoader

    projs = {}
    for solver, method, device in backends:
        p = Path(outdir) / method
        p.mkdir(parents=True, exist_ok=True)
        tl = TemplateLoader(solver, method, device)
        tl.render(name, net, templates=RATE_TEMPLATES[solver], path=p)
        projs[method] = Project(p, solver, method, device)
    return projs


_CONST_RE = re.compile(r"^\s*(?:const|__constant__)\s+double\s+(\w+)\s*=\s*([^;]+);", re.M)


def constants_of(proj):
    txt = strip_comments((proj.path / "src" / f"naunet_constants.{proj.ext}").read_text())
    out = {}
    it = Interp()
    for m in _CONST_RE.finditer(txt):
        it2 = Interp(globals_=dict(out))
        out[m.group(1)] = float(it2.eval(parse_expression(m.group(2))))
    return out


def data_fields(proj):
    """NaunetData field -> default value (None when the header gives none)."""
    txt = strip_comments((proj.path / "include" / "naunet_data.h").read_text())
    m = re.search(r"struct\s+NaunetData\s*\{(.*?)\};", txt, re.S)
    out = {}
    if m:
        for f in re.finditer(r"double\s+(\w+)\s*(?:=\s*([^;]+))?;", m.group(1)):
            out[f.group(1)] = float(f.group(2)) if f.group(2) else None
    return out


def physics_funcs(proj, consts):
    """GetMantleDens / GetNumDens / GetMu / GetGamma / GetHNuclei evaluated by the interpreter itself."""
    funcs = {}

    def make(name):
        def f(*args):
            _, stmts = proj.function("naunet_physics", name)
            it = Interp(consts=proj.ints, funcs=funcs_all, globals_=dict(consts))
            params = {"y": args[0]}
            if name == "GetElementAbund":
                params["elemidx"] = args[1]
            return it.run_function(stmts, params)

        return f

    funcs_all = dict(STUBS)
    for n in ("GetMantleDens", "GetNumDens", "GetMu", "GetGamma", "GetHNuclei", "GetElementAbund"):
        funcs[n] = make(n)
    funcs_all.update(funcs)
    return funcs_all


def eval_rates(proj, params, yvals=None, which="EvalRates", arr="k", size=None):
    """Returns (k list, interpreter) after running the rendered function body on a zeroed k array."""
    if "rate_env" not in proj._cache:
        c = constants_of(proj)
        proj._cache["rate_env"] = (c, physics_funcs(proj, c))
    consts, funcs = proj._cache["rate_env"]
    _, stmts = proj.rates_fn(which)
    n = size if size is not None else proj.nreac
    k = CArray(arr, n, 0.0)
    y = CArray("y", proj.neq, 0.0, data=list(yvals) if yvals is not None else [1.0] * proj.neq)
    it = Interp(consts=proj.ints, funcs=funcs, globals_=dict(consts))
    it.run_function(stmts, {arr: k, "y": y, "u_data": dict(params)})
    return list(k.data), it


def close(a, b, rel=1e-12):
    if a != a and b != b:
        return True
    if a != a or b != b:
        return False
    if math.isinf(a) or math.isinf(b):
        return a == b
    return abs(a - b) <= rel * max(abs(a), abs(b))
