"""bytes -> case decoders for the atheris supplements (structure-aware: cases of the checks' own schemas)."""
from __future__ import annotations

from ..checks import c08 as _c08
from ..checks import c12 as _c12
from ..gen import lines as L
from ..gen import formats as F


def decode_c08(fdp):
    cfgs = sorted(_c08.CFG)
    cfg = cfgs[fdp.ConsumeIntInRange(0, len(cfgs) - 1)]
    c = _c08.CFG[cfg]
    mode = fdp.ConsumeIntInRange(0, 3)
    if mode == 0:
        # raw name over the configured alphabet: symbols, digits, charge signs, prefixes, a few foreign characters
        alphabet = [s.replace("\\", "") for s in c["elements"] + c["pseudo"]] + list("0123456789") + ["+", "-", "#", "G", "GRAIN", " ", "_", "x", "?"]
        n = fdp.ConsumeIntInRange(1, 8)
        name = "".join(alphabet[fdp.ConsumeIntInRange(0, len(alphabet) - 1)] for _ in range(n))
        return {"cfg": cfg, "kind": "raw", "name": name}
    elems = [e for e in c["elements"] if e.upper() != "E"]
    toks = []
    for _ in range(fdp.ConsumeIntInRange(1, 5)):
        sym = elems[fdp.ConsumeIntInRange(0, len(elems) - 1)]
        cnt = fdp.ConsumeIntInRange(1, 14)
        if toks and toks[-1][0] == sym:
            toks[-1][1] += cnt
        else:
            toks.append([sym, cnt])
    case = {"cfg": cfg, "kind": "mol", "tokens": toks, "label": "", "surface": fdp.ConsumeBool(), "group": 0, "charge": fdp.ConsumeIntInRange(-3, 4), "inject": None,
            "explicit1": [fdp.ConsumeIntInRange(0, 7) == 0 for _ in toks]}
    if c["labels"] and fdp.ConsumeIntInRange(0, 4) == 0:
        case["label"] = c["labels"][fdp.ConsumeIntInRange(0, len(c["labels"]) - 1)]
    if mode == 3:
        case["inject"] = {"pos": fdp.ConsumeIntInRange(0, 30), "ch": _c08.FOREIGN[fdp.ConsumeIntInRange(0, len(_c08.FOREIGN) - 1)]}
    return case


_C12_TOKENS = _c12.NUMS + _c12.VARS + [f"n(idx_{s})" for s in sorted(_c12.SPECIES)] + ["+", "-", "*", "/", "**", "(", ")", "exp(", "log(", "sqrt(", "log10(", "dexp(", "abs(", " "]


def decode_c12(fdp):
    n = fdp.ConsumeIntInRange(1, 14)
    text = "".join(_C12_TOKENS[fdp.ConsumeIntInRange(0, len(_C12_TOKENS) - 1)] for _ in range(n))
    if "," in text:
        return None
    return {"kind": "text", "text": text, "seedvals": fdp.ConsumeIntInRange(0, 10 ** 6)}


_NAMES = ["H", "H2", "H+", "H-", "e-", "C", "C+", "CH", "O", "OH", "H2O", "CO", "He", "He+", "Si", "SiO", "Mg", "Cl", "HCl", "C10H2", "oH2", "H3+", "HCO+"]
_COEF = [0.0, 1.0, -1.0, 2.5e-10, -3.0, 0.5, 1e-17, 7.75e3, 30450.0, -26.5, 1.23e-9, 41000.0, 9.99e-1]


def decode_c07(fdp):
    fmts = ["kida", "umist", "leeds", "uclchem", "naunet"]
    fmt = fmts[fdp.ConsumeIntInRange(0, len(fmts) - 1)]
    nlines = fdp.ConsumeIntInRange(1, 4)
    lrs, lines = [], []
    variant = {"padded": fdp.ConsumeBool()} if fmt == "naunet" else {"numstyle": "eE"[fdp.ConsumeIntInRange(0, 1)]} if fmt in ("kida", "umist") else {"idx_right": fdp.ConsumeBool()} if fmt == "leeds" else {}
    el = L.ELECTRON[fmt]
    for _ in range(nlines):
        pick = lambda: (lambda n: el if n == "e-" else n)(_NAMES[fdp.ConsumeIntInRange(0, len(_NAMES) - 1)])
        nr = fdp.ConsumeIntInRange(1, L.N_REACT[fmt])
        code = {"kida": lambda: [1, 2, 3, 4, 5, 6][fdp.ConsumeIntInRange(0, 5)], "umist": lambda: sorted(F.UMIST_CODE)[fdp.ConsumeIntInRange(0, len(F.UMIST_CODE) - 1)],
                "leeds": lambda: sorted(F.LEEDS_RTYPE)[fdp.ConsumeIntInRange(0, len(F.LEEDS_RTYPE) - 1)], "uclchem": lambda: ["", "CRP", "PHOTON", "CRPHOT", "FREEZE", "DESOH2", "DESCR", "DEUVCR", "THERM", "DIFF", "CHEMDES"][fdp.ConsumeIntInRange(0, 10)],
                "naunet": lambda: L.NAUNET_TYPES[fdp.ConsumeIntInRange(0, len(L.NAUNET_TYPES) - 1)]}[fmt]()
        if fmt == "uclchem" and code:
            nr = min(nr, 2)
        if fmt == "umist":
            nr = min(nr, 2)
        r = [pick() for _ in range(nr)]
        p = [pick() for _ in range(fdp.ConsumeIntInRange(1, L.N_PROD[fmt]))]
        markers = []
        if L.MARKERS[fmt] and nr < L.N_REACT[fmt] and fdp.ConsumeIntInRange(0, 3) == 0:
            tok = L.MARKERS[fmt][fdp.ConsumeIntInRange(0, len(L.MARKERS[fmt]) - 1)]
            if fmt == "umist":
                tok = F.UMIST_MARKER.get(code, tok)
            markers = [(fdp.ConsumeIntInRange(1, nr), tok)]
        ints = fmt in ("kida", "umist", "leeds")
        tw = [(10, 300), (0, 0), (5, 41000), (1015, 41000)][fdp.ConsumeIntInRange(0, 3)] if ints else [(-1.0, -1.0), (10.0, 300.0), (157.35, 11604.52)][fdp.ConsumeIntInRange(0, 2)]
        lr = {"fmt": fmt, "r": r, "p": p, "markers_r": markers, "a": _COEF[fdp.ConsumeIntInRange(0, len(_COEF) - 1)], "b": _COEF[fdp.ConsumeIntInRange(0, len(_COEF) - 1)],
              "c": _COEF[fdp.ConsumeIntInRange(0, len(_COEF) - 1)], "tmin": tw[0], "tmax": tw[1], "idx": -1 if fmt == "uclchem" else fdp.ConsumeIntInRange(1, 99999), "code": code}
        if fmt == "leeds":
            lr["a"] = abs(lr["a"])
            lr["b"] = max(-9999.0, min(9999.0, lr["b"]))
            lr["c"] = max(-999999.0, min(999999.0, lr["c"]))
        if any(len(n) > L.NAME_LIMIT[fmt] for n in r + p):
            return None
        if fdp.ConsumeIntInRange(0, 4) == 0:
            lines.append(["", "   ", "\t"][fdp.ConsumeIntInRange(0, 2)])
        try:
            lines.append(L.encode(lr, variant))
        except ValueError:
            return None
        lrs.append(lr)
    return {"fmt": fmt, "lines": lines, "expected": lrs, "variant": variant, "trailing_newline": fdp.ConsumeBool()}
