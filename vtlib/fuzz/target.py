"""Coverage-guided supplement (atheris / libFuzzer) for the thorough tier.

    PYTHONPATH=/verif/.deps python -m vtlib.fuzz.target <C07|C08|C12> <outdir> -runs=N -seed=S [corpus]

Bytes are decoded into a *case of the property's own check* (structure-aware), the check's plain
`check_case` is the oracle, so a failure is a replayable case exactly like a Hypothesis-found one.
naunet's global state is reset by check_case at the top of every iteration.
"""
from __future__ import annotations
import json
import logging
import os
import sys

os.environ["TQDM_DISABLE"] = "1"
logging.disable(logging.CRITICAL)

import atheris  # noqa: E402

with atheris.instrument_imports(include=["naunet"]):
    import naunet.species  # noqa: F401
    import naunet.network  # noqa: F401
    import naunet.reactions.converter  # noqa: F401
    import naunet.reactions.kromereaction  # noqa: F401

from vtlib.runner import evaluate, load_findings, case_hash  # noqa: E402
from vtlib.fuzz import decoders  # noqa: E402
import importlib  # noqa: E402

PROP = sys.argv[1]
OUT = sys.argv[2]
MOD = importlib.import_module(f"vtlib.checks.{PROP.lower()}")
KNOWN = {f["key"] for f in load_findings(PROP)[0]}
DECODE = getattr(decoders, f"decode_{PROP.lower()}")
STATS = {"execs": 0, "evaluated": 0, "nontrivial": set(), "excluded_known": 0}


def one_input(data: bytes):
    STATS["execs"] += 1
    if STATS["execs"] % 500 == 0:
        dump_stats()  # libFuzzer exits the process itself: no atexit / finally
    fdp = atheris.FuzzedDataProvider(data)
    case = DECODE(fdp)
    if case is None:
        return
    res = evaluate(MOD, case, "thorough")
    if res.discarded:
        return
    STATS["evaluated"] += 1
    if res.nontrivial:
        STATS["nontrivial"].add(case_hash(case))
    unknown = [(k, m) for k, m in res.failures if k not in KNOWN]
    STATS["excluded_known"] += len(res.failures) - len(unknown)
    if unknown:
        with open(os.path.join(OUT, "violation.json"), "w") as f:
            json.dump({"property": PROP, "case": case, "failures": unknown, "note": "atheris"}, f, indent=1)
        dump_stats()
        raise AssertionError(unknown[0][0])


def dump_stats():
    with open(os.path.join(OUT, "stats.json"), "w") as f:
        json.dump({"execs": STATS["execs"], "evaluated": STATS["evaluated"], "distinct_nontrivial": len(STATS["nontrivial"]), "excluded_known": STATS["excluded_known"]}, f)


def main():
    os.makedirs(OUT, exist_ok=True)
    import atexit

    argv = [sys.argv[0]] + sys.argv[3:]
    atheris.Setup(argv, one_input)
    try:
        atheris.Fuzz()
    finally:
        dump_stats()


if __name__ == "__main__":
    main()
