"""atheris (libFuzzer) supplements for the thorough tier."""
from __future__ import annotations
import json
import os
import shutil
import subprocess
import sys
import tempfile
from pathlib import Path

ROOT = Path(__file__).resolve().parent.parent.parent
DEPS = ROOT / ".deps"


def supplement(prop, seed, runs, timeout=1500):
    """Run a seeded campaign with a fresh (empty) corpus; returns counters and, if any, the violating case."""
    if not (DEPS / "atheris").exists():
        return {"atheris": "not installed (run ./vt setup)"}
    out = tempfile.mkdtemp(prefix="vt-fz-")
    try:
        os.makedirs(os.path.join(out, "corpus"))
        env = dict(os.environ, PYTHONPATH=f"{DEPS}:{os.environ.get('PYTHONPATH', '')}".rstrip(":"), PYTHONHASHSEED="0", TQDM_DISABLE="1")
        p = subprocess.run(
            [sys.executable, "-m", "vtlib.fuzz.target", prop, out, f"-runs={runs}", f"-seed={seed if seed else 1}", f"-artifact_prefix={out}/", os.path.join(out, "corpus")],
            cwd=str(ROOT), env=env, capture_output=True, text=True, timeout=timeout,
        )
        res = {}
        sp = os.path.join(out, "stats.json")
        if os.path.exists(sp):
            st = json.load(open(sp))
            res = {"atheris_execs": st["execs"], "atheris_cases_evaluated": st["evaluated"], "atheris_distinct_nontrivial": st["distinct_nontrivial"]}
        vp = os.path.join(out, "violation.json")
        if os.path.exists(vp):
            v = json.load(open(vp))
            res["violations"] = [{"case": v["case"], "failures": [tuple(f) for f in v["failures"]]}]
        elif p.returncode != 0:
            raise RuntimeError(f"atheris target for {prop} failed ({p.returncode}): {p.stderr[-800:]}")
        return res
    finally:
        shutil.rmtree(out, ignore_errors=True)
