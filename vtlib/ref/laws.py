"""Independent implementation of the published gas-phase rate laws (C05) — no naunet imports."""
from __future__ import annotations

from ..ctext.interp import c_exp, c_pow, c_sqrt, c_div, c_mul
from ..ratecase import stub_shielding, stub_scattering, stub_wavelength

ZISM = 1.3e-17


class Refused(Exception):
    """The law is one naunet documents as not implemented (must raise at generation time)."""


def arrhenius(a, b, c, T):
    k = a
    if b:
        k = c_mul(k, c_pow(T / 300.0, b))
    if c:
        k = c_mul(k, c_exp(c_div(-c, T)))
    return k


def ionpol1(a, b, c, T):
    return a * b * (0.62 + 0.4767 * c * c_sqrt(300.0 / T))


def ionpol2(a, b, c, T):
    return a * b * (1 + 0.0967 * c * c_sqrt(300.0 / T) + c * c * (300.0 / T) / 10.526)


def crphot(a, b, c, T, omega, pref=1.0):
    return c_div(c_mul(c_mul(c_mul(a, pref), c_pow(T / 300.0, b)), c), (1.0 - omega))


def gas_rate(lr, P, slot_of_alias=None):
    """lr: line reaction (fmt, code, a, b, c, r); P: physical parameters; returns the rate coefficient."""
    fmt, code = lr["fmt"], lr["code"]
    a, b, c = float(lr["pa"]), float(lr["pb"]), float(lr["pc"])  # values as printed in the file
    T, Av = P["Tgas"], P["Av"]
    if fmt == "kida":
        if code == 1:
            return a * P["zeta"]
        if code == 2:
            return c_mul(a, c_exp(-c * Av)) if c else a
        if code == 3:
            return arrhenius(a, b, c, T)
        if code == 4:
            return ionpol1(a, b, c, T)
        if code == 5:
            return ionpol2(a, b, c, T)
        raise Refused("KIDA formula 6")
    if fmt == "umist":
        if code == "PH":
            return c_mul(a, c_exp(-c * Av))
        if code == "CP":
            return a
        if code == "CR":
            return crphot(a, b, c, T, P["omega"])
        return arrhenius(a, b, c, T)
    if fmt == "naunet":
        if code == 100:
            return arrhenius(a, b, c, T)
        if code == 101:
            return a * P["zeta"]
        if code == 102:
            return c_mul(a, c_exp(-c * Av))
        if code == 110:
            return ionpol1(a, b, c, T)
        if code == 111:
            return ionpol2(a, b, c, T)
        if code == 120:
            return crphot(a, b, c, T, P["omega"])
        raise Refused(f"native type {code}")
    if fmt == "leeds":
        z = (P["zeta_cr"] + P["zeta_xr"]) / ZISM
        if code == 1:
            return arrhenius(a, b, c, T)
        if code == 2:
            return a * (P["zeta_cr"] + P["zeta_xr"]) / ZISM
        if code in (3, 11):
            return crphot(a, b, c, T, P["omega"], pref=z)
        if code in (4, 12):
            k = c_mul(P["G0"] * a, c_exp(-c * Av))
            re1 = lr["r"][0]
            tgt = {"H2": "H2", "CO": "CO", "N2": "N2"} if code == 4 else {"GH2": "H2", "GCO": "CO", "GN2": "N2"}
            if re1 in tgt:
                h2col = 0.5 * 1.59e21 * Av
                cols = {"H2": h2col, "CO": 1e-5 * h2col, "N2": 1e-5 * h2col}
                k = k * stub_shielding(slot_of_alias[tgt[re1] + "I"], h2col, cols[tgt[re1]], T, 0)
            return k
        if code == 5 or code in range(15, 20):
            return 0.0
        raise Refused(f"leeds type {code}")
    if fmt == "uclchem":
        z = P["zeta"] / ZISM
        if code == "":
            return arrhenius(a, b, c, T)
        if code == "CRP":
            return a * z
        if code == "CRPHOT":
            return crphot(a, b, c, T, P["omega"], pref=z)
        if code == "PHOTON":
            if lr["r"][0] == "CO":
                h2col = 0.5 * 1.59e21 * Av
                cocol = 1e-5 * h2col
                lam = stub_wavelength(h2col, cocol)
                return (2.0e-10) * P["G0"] * stub_shielding(slot_of_alias["COI"], h2col, cocol, T, 1) * stub_scattering(Av, lam) / 1.7
            return c_mul(P["G0"] * a, c_exp(-c * Av)) / 1.7
        raise Refused(f"uclchem keyword {code}")
    raise ValueError(fmt)
