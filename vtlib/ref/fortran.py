"""Independent Fortran-semantics reader/evaluator for KROME rate expressions (C12 oracle).

Tree nodes (JSON-able lists):
  ["num", text]            literal as written (d/e exponents), non-negative
  ["var", name]
  ["n", speciestoken]      n(idx_<speciestoken>)
  ["fn", name, arg]
  ["bin", op, l, r]        op in + - * / **
  ["neg", e]               unary minus
"""
from __future__ import annotations
import re

from ..ctext.interp import c_pow, c_exp, c_log, c_log10, c_sqrt, c_div, c_mul

PREC = {"+": 1, "-": 1, "*": 2, "/": 2, "**": 4}


class FortranSyntaxError(Exception):
    pass


# ------------------------------------------------------------------------------------ rendering
def render(node, ctx=0, side="L", sp=""):
    """Fortran text whose standard parse is exactly `node` (parentheses only where Fortran needs them)."""
    k = node[0]
    if k == "num":
        return node[1]
    if k == "var":
        return node[1]
    if k == "n":
        return f"n(idx_{node[1]})"
    if k == "fn":
        return f"{node[1]}({render(node[2], 0, 'L', sp)})"
    if k == "par":
        return f"({render(node[1], 0, 'L', sp)})"
    if k == "neg":
        # -x binds weaker than * / ** on its operand and may only start an additive expression
        s = "-" + render(node[1], 2, "L", sp)
        return f"({s})" if (ctx >= 2 or (ctx == 1 and side == "R")) else s
    if k == "bin":
        op = node[1]
        p = PREC[op]
        if op == "**":
            s = render(node[2], 4, "L", sp) + "**" + render(node[3], 4, "R", sp)
            need = ctx > 4 or (ctx == 4 and side == "L")
        else:
            s = render(node[2], p, "L", sp) + sp + op + sp + render(node[3], p, "R", sp)
            need = ctx > p or (ctx == p and side == "R")
        return f"({s})" if need else s
    raise ValueError(k)


# ------------------------------------------------------------------------------------ parsing (standard Fortran precedence)
_TOK = re.compile(r"\s*(?:(\d+\.\d*|\.\d+|\d+)([dDeE][+-]?\d+)?|([A-Za-z_][A-Za-z0-9_]*)|(\*\*|[-+*/(),:]))")


def tokenize(text):
    pos, out = 0, []
    text = text.strip()
    while pos < len(text):
        m = _TOK.match(text, pos)
        if not m:
            raise FortranSyntaxError(f"bad character at {text[pos:pos+10]!r}")
        pos = m.end()
        if m.group(1) is not None:
            out.append(("num", m.group(1) + (m.group(2) or "")))
        elif m.group(3) is not None:
            out.append(("id", m.group(3)))
        else:
            out.append(("op", m.group(4)))
    return out


def parse(text):
    toks = tokenize(text)
    pos = [0]

    def peek():
        return toks[pos[0]] if pos[0] < len(toks) else (None, None)

    def nxt():
        t = peek()
        pos[0] += 1
        return t

    def expr():  # level-2: [+|-] term {(+|-) term}
        sign = None
        if peek() in (("op", "-"), ("op", "+")):
            sign = nxt()[1]
        node = term()
        if sign == "-":
            node = ["neg", node]
        while peek() in (("op", "+"), ("op", "-")):
            op = nxt()[1]
            node = ["bin", op, node, term()]
        return node

    def term():  # factor {(*|/) factor}
        node = factor()
        while peek() in (("op", "*"), ("op", "/")):
            op = nxt()[1]
            node = ["bin", op, node, factor()]
        return node

    def factor():  # primary [** factor]   (right associative)
        base = primary()
        if peek() == ("op", "**"):
            nxt()
            # Fortran allows a signed exponent only in parentheses; accept `a**-b` as KROME files write it
            if peek() == ("op", "-"):
                nxt()
                return ["bin", "**", base, ["neg", factor()]]
            return ["bin", "**", base, factor()]
        return base

    def primary():
        k, v = nxt()
        if k == "num":
            return ["num", v]
        if k == "id":
            if peek() == ("op", "("):
                nxt()
                if v == "n" and peek()[0] == "id" and peek()[1].startswith("idx_"):
                    name = nxt()[1][4:]
                    if nxt() != ("op", ")"):
                        raise FortranSyntaxError("n(idx_..) not closed")
                    return ["n", name]
                arg = expr()
                if nxt() != ("op", ")"):
                    raise FortranSyntaxError("function call with several arguments or unbalanced parenthesis")
                return ["fn", v, arg]
            return ["var", v]
        if (k, v) == ("op", "("):
            e = expr()
            if nxt() != ("op", ")"):
                raise FortranSyntaxError("unbalanced parenthesis")
            return e
        raise FortranSyntaxError(f"unexpected token {v!r}")

    node = expr()
    if pos[0] != len(toks):
        raise FortranSyntaxError(f"trailing tokens {toks[pos[0]:pos[0]+3]}")
    return node


# ------------------------------------------------------------------------------------ evaluation
def num_value(text):
    return float(text.lower().replace("d", "e"))


def is_int_literal(node):
    return node[0] == "num" and re.fullmatch(r"\d+", node[1]) is not None


FUNCS = {
    "exp": c_exp,
    "dexp": c_exp,
    "log": c_log,
    "log10": c_log10,
    "sqrt": c_sqrt,
    "abs": lambda x: abs(float(x)),
    # double-precision specific names of the same intrinsics
    "dlog": c_log,
    "dlog10": c_log10,
    "dsqrt": c_sqrt,
    "dabs": lambda x: abs(float(x)),
}


def evaluate(node, env, nvals):
    k = node[0]
    if k == "num":
        return num_value(node[1])
    if k == "var":
        return float(env[node[1]])
    if k == "n":
        return float(nvals[node[1]])
    if k == "fn":
        return FUNCS[node[1].lower()](evaluate(node[2], env, nvals))
    if k == "par":
        return evaluate(node[1], env, nvals)
    if k == "neg":
        return -evaluate(node[1], env, nvals)
    if k == "bin":
        a = evaluate(node[2], env, nvals)
        b = evaluate(node[3], env, nvals)
        op = node[1]
        if op == "+":
            return a + b
        if op == "-":
            return a - b
        if op == "*":
            return c_mul(a, b)
        if op == "/":
            return c_div(float(a), float(b))
        if op == "**":
            return c_pow(a, b)
    raise ValueError(k)


def has_int_division(node):
    """int/int (Fortran integer division) anywhere — excluded domain."""
    k = node[0]
    if k == "bin":
        if node[1] == "/" and _is_int_expr(node[2]) and _is_int_expr(node[3]):
            return True
        return has_int_division(node[2]) or has_int_division(node[3])
    if k in ("neg", "par"):
        return has_int_division(node[1])
    if k == "fn":
        return has_int_division(node[2])
    return False


def _is_int_expr(node):
    k = node[0]
    if k == "num":
        return is_int_literal(node)
    if k in ("neg", "par"):
        return _is_int_expr(node[1])
    if k == "bin":
        return _is_int_expr(node[2]) and _is_int_expr(node[3])
    if k == "fn":
        # the generic ABS keeps the type of its argument: 7/abs(2) is an integer division like 7/2
        return node[1].lower() == "abs" and _is_int_expr(node[2])
    return False


def features(node, acc=None):
    acc = acc if acc is not None else set()
    k = node[0]
    if k == "num":
        if re.search(r"[dD]", node[1]):
            acc.add("d-exponent")
    elif k == "n":
        acc.add("n(idx)")
    elif k == "fn":
        acc.add("intrinsic")
        features(node[2], acc)
    elif k in ("neg", "par"):
        if k == "neg":
            acc.add("unary-minus")
        features(node[1], acc)
    elif k == "bin":
        op = node[1]
        if op == "**":
            if node[2][0] != "num" or node[3][0] != "num":
                acc.add("pow-nonliteral")
            if node[3][0] == "bin" and node[3][1] == "**":
                acc.add("pow-chain")
            if node[2][0] == "neg" or node[3][0] == "neg":
                acc.add("pow-with-sign")
        for side in (2, 3):
            ch = node[side]
            if ch[0] == "bin" and PREC[ch[1]] == PREC[op]:
                acc.add("same-level-chain")
        features(node[2], acc)
        features(node[3], acc)
    return acc
