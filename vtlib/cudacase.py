"""Batched execution of the cuSPARSE back-end on the host (vtlib.cxx.cuda) as a case-level helper.

A generated `batch` (plain JSON: number of cells, per-cell abundance exponents, per-cell parameter exponents, per-cell
temperatures, launch configurations) is turned into per-cell state vectors and NaunetData records; the rendered
cvode/cusparse/gpu project is executed on the whole batch and compared, cell by cell, with the rendered cvode/dense/cpu
project executed on each cell alone.
"""
from __future__ import annotations

from hypothesis import strategies as st

from .ratecase import data_fields

TEMPS = [8.0, 30.0, 150.0, 900.0, 6000.0, 41000.0]
POLICIES = [
    [[1, 1], [2, 0]],  # one thread walks the whole batch (grid-stride loop); thread-direct with 2-thread blocks
    [[1, 1], [4, 2]],  # ... ; fixed 2x4 grid (more threads than cells)
    [[3, 0], [1, 2]],  # thread-direct, idle threads in the last block; two threads sharing the batch
]


@st.composite
def batch(draw, maxcells=4, temps=None):
    n = draw(st.integers(2, maxcells))
    return {
        "ncell": n,
        "yexp": [[draw(st.integers(-12, 0)) for _ in range(6)] for _ in range(n)],
        "pexp": [[draw(st.integers(-2, 2)) for _ in range(5)] for _ in range(n)],
        "tgas": [draw(st.sampled_from(temps or TEMPS)) for _ in range(n)],
        "policies": draw(st.sampled_from(POLICIES)),
    }


def cells_of(b, proj, tgas_slot=None):
    """-> (cells, ys): per-cell NaunetData values (struct order) and per-cell state vectors."""
    fields = data_fields(proj)
    neq = proj.neq
    cells, ys = [], []
    for c in range(b["ncell"]):
        vals, j = [], 0
        for k, dflt in fields.items():
            if k == "Tgas":
                v = float(b["tgas"][c])
            elif k == "omega":
                v = 0.5
            elif dflt is not None:
                v = dflt
            else:
                v = 10.0 ** b["pexp"][c][j % 5]
                j += 1
            vals.append(v)
        y = [10.0 ** b["yexp"][c][i % 6] * (1.0 + 0.125 * i) for i in range(neq)]
        if tgas_slot is not None and tgas_slot < neq:
            y[tgas_slot] = float(b["tgas"][c]) * 1.5  # the evolved temperature need not equal the parameter
        cells.append(vals)
        ys.append(y)
    return cells, ys


def run_batch(b, dense_proj, cuda_proj, sanitize=False):
    from .cxx import cuda

    tg = dense_proj.ints.get("IDX_TGAS") if dense_proj.neq > dense_proj.nspec else None
    cells, ys = cells_of(b, dense_proj, tg)
    if list(data_fields(dense_proj)) != list(data_fields(cuda_proj)):
        return [("cuda-batch/data-struct-differs", f"NaunetData fields differ: dense {list(data_fields(dense_proj))} vs cusparse {list(data_fields(cuda_proj))}")], {}
    return cuda.batch_differential(dense_proj, cuda_proj, cells, ys, policies=[tuple(p) for p in b["policies"]], sanitize=sanitize)
