"""Fresh-process call helper (engine S): python -m vtlib.proc.call <module> <function>  < JSON  > JSON.

Used where the property is about process-global state or the interpreter's hash seed.
"""
from __future__ import annotations
import importlib
import io
import json
import logging
import os
import subprocess
import sys
import contextlib
from pathlib import Path

ROOT = Path(__file__).resolve().parent.parent.parent


def call(module, func, payload, hashseed="0", timeout=300):
    env = dict(os.environ, PYTHONHASHSEED=str(hashseed), TQDM_DISABLE="1")
    p = subprocess.run(
        [sys.executable, "-m", "vtlib.proc.call", module, func],
        input=json.dumps(payload),
        capture_output=True,
        text=True,
        cwd=str(ROOT),
        env=env,
        timeout=timeout,
    )
    if p.returncode != 0:
        raise RuntimeError(f"subprocess {module}.{func} failed ({p.returncode}): {p.stderr[-1500:]}")
    line = [ln for ln in p.stdout.splitlines() if ln.startswith("VTRESULT ")]
    if not line:
        raise RuntimeError(f"subprocess {module}.{func} printed no result: {p.stdout[-500:]} {p.stderr[-500:]}")
    return json.loads(line[-1][len("VTRESULT "):])


def main():
    os.environ["TQDM_DISABLE"] = "1"
    module, func = sys.argv[1], sys.argv[2]
    payload = json.loads(sys.stdin.read())
    logging.disable(logging.CRITICAL)
    buf = io.StringIO()
    with contextlib.redirect_stdout(buf):
        res = getattr(importlib.import_module(module), func)(payload)
    print("VTRESULT " + json.dumps(res, default=str))


if __name__ == "__main__":
    main()
