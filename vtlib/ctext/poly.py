"""Exact Laurent-polynomial normal form over Fraction coefficients.

A polynomial is a dict {monomial: Fraction}; a monomial is a tuple of (atom, exponent) pairs sorted
by atom, exponent a non-zero int.  Atoms are strings: 'y[5]', 'k[0]', 'gamma', 'GetNumDens(y)', ...
Equality of two normal forms is an exact decision of "equal for all values of all atoms".
"""
from __future__ import annotations
from fractions import Fraction

from .lexer import CParseError, ast_to_str


class PolyZeroDivision(CParseError):
    """The text divides by a literal zero (0.0/0.0 -> NaN at run time)."""


class Poly:
    __slots__ = ("terms", "is_int")

    def __init__(self, terms=None, is_int=False):
        self.terms = {m: c for m, c in (terms or {}).items() if c != 0}
        self.is_int = is_int  # C integer-typed constant (for 1/2 == 0)

    # constructors
    @staticmethod
    def const(c, is_int=False):
        return Poly({(): Fraction(c)}, is_int=is_int)

    @staticmethod
    def atom(name, exp=1):
        return Poly({((name, exp),): Fraction(1)})

    def is_const(self):
        return all(m == () for m in self.terms)

    def const_value(self):
        return self.terms.get((), Fraction(0))

    def is_zero(self):
        return not self.terms

    def __eq__(self, o):
        return isinstance(o, Poly) and self.terms == o.terms

    def __hash__(self):
        return hash(frozenset(self.terms.items()))

    def __add__(self, o):
        t = dict(self.terms)
        for m, c in o.terms.items():
            t[m] = t.get(m, 0) + c
        return Poly(t, is_int=self.is_int and o.is_int and self.is_const() and o.is_const())

    def __neg__(self):
        return Poly({m: -c for m, c in self.terms.items()}, is_int=self.is_int)

    def __sub__(self, o):
        return self + (-o)

    @staticmethod
    def _mulmono(a, b):
        d = dict(a)
        for atom, e in b:
            d[atom] = d.get(atom, 0) + e
        return tuple(sorted((k, v) for k, v in d.items() if v != 0))

    def __mul__(self, o):
        t = {}
        for m1, c1 in self.terms.items():
            for m2, c2 in o.terms.items():
                m = Poly._mulmono(m1, m2)
                t[m] = t.get(m, 0) + c1 * c2
        return Poly(t, is_int=self.is_int and o.is_int and self.is_const() and o.is_const())

    def scale(self, c):
        return Poly({m: v * c for m, v in self.terms.items()})

    def div(self, o):
        if o.is_zero():
            raise PolyZeroDivision("division by the zero polynomial")
        if self.is_int and o.is_int and self.is_const() and o.is_const():
            a, b = self.const_value(), o.const_value()
            q = abs(a) // abs(b)
            if (a < 0) != (b < 0):
                q = -q
            return Poly.const(q, is_int=True)
        if len(o.terms) == 1:
            (m, c), = o.terms.items()
            inv = Poly({tuple((a, -e) for a, e in m): 1 / c})
            return self * inv
        # divisor is a genuine sum: opaque atom
        return self * Poly.atom("(" + o.canon() + ")", -1)

    def derivative(self, atom):
        t = {}
        for m, c in self.terms.items():
            d = dict(m)
            e = d.get(atom, 0)
            if e == 0:
                continue
            c2 = c * e
            if e == 1:
                del d[atom]
            else:
                d[atom] = e - 1
            mm = tuple(sorted(d.items()))
            t[mm] = t.get(mm, 0) + c2
        return Poly(t)

    def atoms(self):
        s = set()
        for m in self.terms:
            for a, _ in m:
                s.add(a)
        return s

    def subs_const(self, mapping):
        """Substitute some atoms by Fractions/ints; returns Poly."""
        t = {}
        for m, c in self.terms.items():
            keep = []
            cc = c
            for a, e in m:
                if a in mapping:
                    cc = cc * Fraction(mapping[a]) ** e
                else:
                    keep.append((a, e))
            mm = tuple(keep)
            t[mm] = t.get(mm, 0) + cc
        return Poly(t)

    def evaluate(self, env):
        """Float value and the sum of |terms| (scale for a cancellation-aware tolerance)."""
        tot, scale = 0.0, 0.0
        for m, c in self.terms.items():
            v = float(c)
            for a, e in m:
                v *= float(env[a]) ** e
            tot += v
            scale += abs(v)
        return tot, scale

    def canon(self):
        if not self.terms:
            return "0"
        parts = []
        for m in sorted(self.terms):
            c = self.terms[m]
            ms = "*".join(a if e == 1 else f"{a}^{e}" for a, e in m)
            parts.append(f"{c}" + (f"*{ms}" if ms else ""))
        return " + ".join(parts)

    __repr__ = canon
    __str__ = canon


def _const_int(ast, consts):
    """Evaluate an integer constant expression (array subscripts) with the given name->int table."""
    k = ast[0]
    if k == "num":
        if not ast[2]:
            raise CParseError(f"non-integer subscript {ast[1]}")
        return int(ast[1])
    if k == "id":
        if ast[1] in consts:
            return int(consts[ast[1]])
        raise CParseError(f"unknown identifier in subscript: {ast[1]}")
    if k == "binop":
        a, b = _const_int(ast[2], consts), _const_int(ast[3], consts)
        op = ast[1]
        if op == "+":
            return a + b
        if op == "-":
            return a - b
        if op == "*":
            return a * b
        if op == "/":
            q = abs(a) // abs(b)
            return q if (a < 0) == (b < 0) else -q
        if op == "%":
            return a - b * (abs(a) // abs(b) if (a < 0) == (b < 0) else -(abs(a) // abs(b)))
        if op == "||":
            return int(bool(a) or bool(b))
        if op == "&&":
            return int(bool(a) and bool(b))
        if op in ("==", "!=", "<", ">", "<=", ">="):
            return int(eval(f"{a} {op} {b}"))
    if k == "unop":
        v = _const_int(ast[2], consts)
        return {"-": -v, "+": v, "!": int(not v)}[ast[1]]
    if k == "cast":
        return _const_int(ast[2], consts)
    raise CParseError(f"not an integer constant expression: {ast_to_str(ast)}")


def const_int(ast, consts):
    return _const_int(ast, consts)


def ast_to_poly(ast, consts=None, alias=None, array_names=None) -> Poly:
    """Normalise an expression AST to a Poly.

    consts: name -> int, used inside subscripts (macros, yistart, jistart)
    alias:  array-name aliases, e.g. {'y_cur': 'y'}
    array_names: names whose subscripted use makes an atom 'name[idx]' (default: any)
    Every other identifier / call / member access / ternary is an opaque atom.
    """
    consts = consts or {}
    alias = alias or {}

    def rec(e):
        k = e[0]
        if k == "num":
            return Poly.const(Fraction(e[1]), is_int=e[2])
        if k == "id":
            return Poly.atom(alias.get(e[1], e[1]))
        if k == "index":
            base = e[1]
            if base[0] != "id":
                raise CParseError(f"unsupported subscript base {ast_to_str(base)}")
            idx = _const_int(e[2], consts)
            return Poly.atom(f"{alias.get(base[1], base[1])}[{idx}]")
        if k == "unop":
            if e[1] == "-":
                return -rec(e[2])
            if e[1] == "+":
                return rec(e[2])
            return Poly.atom(ast_to_str(e))
        if k == "binop":
            op = e[1]
            if op in ("+", "-"):
                # left-nested chains a + b - c + ... of a thousand terms (hub species): walk the spine iteratively
                terms = []
                node = e
                while node[0] == "binop" and node[1] in ("+", "-"):
                    terms.append((node[1], node[3]))
                    node = node[2]
                acc = rec(node)
                for sign, t in reversed(terms):
                    acc = acc + rec(t) if sign == "+" else acc - rec(t)
                return acc
            if op == "*":
                return rec(e[2]) * rec(e[3])
            if op == "/":
                return rec(e[2]).div(rec(e[3]))
            return Poly.atom(ast_to_str(e))
        if k == "call":
            # canonical text of a call with polynomial-normalised arguments
            fn = ast_to_str(e[1])
            args = []
            for a in e[2]:
                try:
                    args.append(rec(a).canon())
                except CParseError:
                    args.append(ast_to_str(a))
            return Poly.atom(f"{fn}({', '.join(args)})")
        if k == "member":
            return Poly.atom(ast_to_str(e))
        if k == "ternary":
            return Poly.atom(ast_to_str(e))
        if k == "cast":
            return rec(e[2])
        raise CParseError(f"cannot normalise {ast_to_str(e)}")

    return rec(ast)
