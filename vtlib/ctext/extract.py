"""Structured access to a rendered naunet project (text level, engine B)."""
from __future__ import annotations
import os
import re
from pathlib import Path

from .lexer import CParseError, CInvalidC, ast_to_str, parse_expression
from .cfile import (
    Macros,
    preprocess,
    find_function,
    parse_body,
    walk_assignments,
    walk_decls,
    strip_comments,
)
from .poly import Poly, ast_to_poly, const_int

BACKENDS = [
    ("cvode", "dense", "cpu"),
    ("cvode", "sparse", "cpu"),
    ("cvode", "cusparse", "gpu"),
    ("odeint", "rosenbrock4", "cpu"),
]


class LayoutViolation(Exception):
    """CSR / subscript / layout defect in generated text (a property violation, not a harness error)."""


class Project:
    def __init__(self, path, solver, method, device):
        self.path = Path(path)
        self.solver = solver
        self.method = method
        self.device = device
        self.ext = "cu" if device == "gpu" else "cpp"
        self.macros = Macros()
        hdr = (self.path / "include" / "naunet_macros.h").read_text()
        preprocess(hdr, self.macros)
        self.ints = self.macros.int_table()
        self._cache = {}

    # ------------------------------------------------------------------ files
    def src(self, stem):
        for ext in (self.ext, "cpp", "cu"):
            p = self.path / "src" / f"{stem}.{ext}"
            if p.exists():
                return p
        raise FileNotFoundError(f"{stem} not rendered in {self.path}")

    def text(self, stem):
        key = ("text", stem)
        if key not in self._cache:
            m = Macros()
            m.obj.update(self.macros.obj)
            m.fn.update(self.macros.fn)
            t = preprocess(self.src(stem).read_text(), m)
            # C++ template arguments are outside the interpreted subset
            t = re.sub(r"(\w)\s*<\s*(?:double|realtype|size_t|int)\s*>", r"\1", t)
            self._cache[key] = t
        return self._cache[key]

    def function(self, stem, name_regex):
        key = ("fn", stem, name_regex)
        if key not in self._cache:
            r = find_function(self.text(stem), name_regex)
            if r is None:
                raise CParseError(f"function {name_regex} not found in {stem}")
            params, body = r
            self._cache[key] = (params, parse_body(body))
        return self._cache[key]

    # ------------------------------------------------------------------ sizes
    @property
    def neq(self):
        return self.ints["NEQUATIONS"]

    @property
    def nspec(self):
        return self.ints["NSPECIES"]

    @property
    def nreac(self):
        return self.ints["NREACTIONS"]

    @property
    def nnz(self):
        return self.ints["NNZ"]

    def idx_table(self):
        """IDX_<alias> -> slot (species only)."""
        return {
            k[4:]: v
            for k, v in self.ints.items()
            if k.startswith("IDX_") and not k.startswith("IDX_ELEM_") and k != "IDX_TGAS"
        }

    def elem_table(self):
        return {k[9:]: v for k, v in self.ints.items() if k.startswith("IDX_ELEM_")}

    # ------------------------------------------------------------------ fex
    def _fex_fn(self):
        if self.solver == "odeint":
            return self.function("naunet_ode", r"Fex::operator\(\)")
        if self.method == "cusparse":
            return self.function("naunet_fex", r"FexKernel")
        return self.function("naunet_fex", r"Fex")

    def _jac_fn(self):
        if self.solver == "odeint":
            return self.function("naunet_ode", r"Jac::operator\(\)")
        if self.method == "cusparse":
            return self.function("naunet_jac", r"JacKernel")
        return self.function("naunet_jac", r"Jac")

    def _consts(self):
        c = dict(self.ints)
        c.update({"yistart": 0, "jistart": 0, "cur": 0})
        return c

    _ALIAS = {"y_cur": "y"}

    def _bounds(self, name, idx, what):
        sizes = {
            "y": self.neq,
            "ydot": self.neq,
            "k": self.nreac,
            "kh": self.ints.get("NHEATPROCS", 0),
            "kc": self.ints.get("NCOOLPROCS", 0),
            "data": self.nnz,
            "rowptrs": self.neq + 1,
            "colvals": self.nnz,
            "ab": self.neq,
        }
        if name in sizes and not (0 <= idx < sizes[name]):
            raise LayoutViolation(f"{what}: {name}[{idx}] outside declared size {sizes[name]}")

    def _check_atoms(self, poly, what):
        for a in poly.atoms():
            m = re.fullmatch(r"(\w+)\[(-?\d+)\]", a)
            if m:
                self._bounds(m.group(1), int(m.group(2)), what)

    def fex_polys(self):
        """slot -> Poly of the emitted ydot statement (all slots 0..NEQ-1 must be assigned once)."""
        _, stmts = self._fex_fn()
        out = {}
        consts = self._consts()
        for _, lhs, op, rhs in walk_assignments(stmts):
            if lhs[0] == "index" and lhs[1] == ("id", "ydot"):
                slot = const_int(lhs[2], consts)
                self._bounds("ydot", slot, "Fex")
                p = ast_to_poly(rhs, consts, self._ALIAS)
                self._check_atoms(p, f"Fex ydot[{slot}]")
                if op in ("+=", "-="):
                    # a long sum continued with compound assignments: valid C, accumulate in statement order
                    if slot not in out:
                        raise LayoutViolation(f"ydot[{slot}] {op} before its first assignment")
                    out[slot] = out[slot] + p if op == "+=" else out[slot] - p
                    continue
                if op != "=":
                    raise CParseError(f"unsupported assignment operator {op} on ydot")
                if slot in out:
                    raise LayoutViolation(f"ydot[{slot}] assigned twice")
                out[slot] = p
        return out

    def fex_raw(self):
        _, stmts = self._fex_fn()
        out = {}
        consts = self._consts()
        for _, lhs, op, rhs in walk_assignments(stmts):
            if lhs[0] == "index" and lhs[1] == ("id", "ydot"):
                out[const_int(lhs[2], consts)] = rhs
        return out

    # ------------------------------------------------------------------ jac
    def jac_layout(self):
        """Returns dict with 'entries': {(row,col): Poly}, and for CSR back-ends 'rowptrs','colvals','data'."""
        _, stmts = self._jac_fn()
        consts = self._consts()
        res = {"entries": {}, "kind": self.method}
        if self.method in ("dense", "rosenbrock4"):
            tgt = "IJth" if self.method == "dense" else "j"
            for _, lhs, op, rhs in walk_assignments(stmts):
                if lhs[0] == "call" and lhs[1] == ("id", tgt):
                    args = lhs[2]
                    if tgt == "IJth":
                        args = args[1:]
                    r, c = const_int(args[0], consts), const_int(args[1], consts)
                    if not (0 <= r < self.neq and 0 <= c < self.neq):
                        raise LayoutViolation(f"Jac entry ({r},{c}) outside {self.neq}x{self.neq}")
                    if op != "=":
                        raise CParseError("compound assignment to jacobian entry")
                    p = ast_to_poly(rhs, consts, self._ALIAS)
                    self._check_atoms(p, f"Jac({r},{c})")
                    if (r, c) in res["entries"]:
                        raise LayoutViolation(f"Jac entry ({r},{c}) assigned twice")
                    res["entries"][(r, c)] = p
            return res
        # CSR back-ends
        rowptrs, colvals, data = {}, {}, {}
        if self.method == "sparse":
            for _, lhs, op, rhs in walk_assignments(stmts):
                if lhs[0] == "index" and lhs[1][0] == "id" and lhs[1][1] in ("rowptrs", "colvals", "data"):
                    n = const_int(lhs[2], consts)
                    name = lhs[1][1]
                    self._bounds(name, n, "Jac")
                    tgt = {"rowptrs": rowptrs, "colvals": colvals, "data": data}[name]
                    if n in tgt:
                        raise LayoutViolation(f"{name}[{n}] assigned twice")
                    if name == "data":
                        p = ast_to_poly(rhs, consts, self._ALIAS)
                        self._check_atoms(p, f"Jac data[{n}]")
                        tgt[n] = p
                    else:
                        tgt[n] = const_int(rhs, consts)
        else:  # cusparse: InitJac arrays + kernel data
            _, istm = self.function("naunet_jac", r"InitJac")
            for d in walk_decls(istm):
                _, typ, name, size, init, ptr = d
                if name in ("rowptrs", "colvals"):
                    n = const_int(size, consts)
                    want = self.neq + 1 if name == "rowptrs" else self.nnz
                    if n != want:
                        raise LayoutViolation(f"InitJac {name}[{n}] but expected size {want}")
                    vals = [const_int(x, consts) for x in (init[1] if init and init[0] == "initlist" else [])]
                    if len(vals) > n:
                        raise LayoutViolation(f"InitJac {name}: {len(vals)} initialisers for size {n}")
                    if len(vals) != n and not (n == 0 or (name == "colvals" and len(vals) == 0 and n == 0)):
                        raise LayoutViolation(f"InitJac {name}: {len(vals)} initialisers for size {n}")
                    tgt = rowptrs if name == "rowptrs" else colvals
                    for i, v in enumerate(vals):
                        tgt[i] = v
            for _, lhs, op, rhs in walk_assignments(stmts):
                if lhs[0] == "index" and lhs[1] == ("id", "data"):
                    n = const_int(lhs[2], consts)
                    self._bounds("data", n, "JacKernel")
                    p = ast_to_poly(rhs, consts, self._ALIAS)
                    self._check_atoms(p, f"JacKernel data[{n}]")
                    if n in data:
                        raise LayoutViolation(f"data[{n}] assigned twice")
                    data[n] = p
        res.update(rowptrs=rowptrs, colvals=colvals, data=data)
        # validity of CSR
        neq, nnz = self.neq, self.nnz
        if sorted(rowptrs) != list(range(neq + 1)):
            raise LayoutViolation(f"rowptrs has indices {sorted(rowptrs)[:5]}.. expected 0..{neq}")
        if sorted(colvals) != list(range(nnz)):
            raise LayoutViolation(f"colvals has {len(colvals)} entries, NNZ={nnz}")
        if sorted(data) != list(range(nnz)):
            raise LayoutViolation(f"data has {len(data)} entries, NNZ={nnz}")
        if rowptrs[0] != 0:
            raise LayoutViolation("rowptrs[0] != 0")
        if rowptrs[neq] != nnz:
            raise LayoutViolation(f"rowptrs[NEQUATIONS]={rowptrs[neq]} != NNZ={nnz}")
        for r in range(neq):
            a, b = rowptrs[r], rowptrs[r + 1]
            if b < a:
                raise LayoutViolation(f"rowptrs decreases at row {r}")
            prev = -1
            for n in range(a, b):
                c = colvals[n]
                if not (0 <= c < neq):
                    raise LayoutViolation(f"colvals[{n}]={c} out of range")
                if c <= prev:
                    raise LayoutViolation(f"column indices not strictly increasing in row {r}")
                prev = c
                res["entries"][(r, c)] = data[n]
        return res

    def raw_statements(self, which="jac"):
        """[(lhs_text, rhs_text)] of the simple assignment statements, split textually (fallback path
        used when the statement reader cannot parse the body)."""
        if which == "jac":
            stem, rx = (
                ("naunet_ode", r"Jac::operator\(\)")
                if self.solver == "odeint"
                else ("naunet_jac", "JacKernel" if self.method == "cusparse" else "Jac")
            )
        elif which == "fex":
            stem, rx = (
                ("naunet_ode", r"Fex::operator\(\)")
                if self.solver == "odeint"
                else ("naunet_fex", "FexKernel" if self.method == "cusparse" else "Fex")
            )
        else:
            stem, rx = which
        r = find_function(self.text(stem), rx)
        if r is None:
            raise CParseError(f"function {rx} not found")
        out = []
        for piece in re.split(r"[;{}]", r[1]):
            m = re.match(r"\s*([A-Za-z_][\w]*\s*(?:\[[^\]=]*\]|\([^=]*\))?)\s*=(?!=)(.*)$", piece, re.S)
            if m and "\n#" not in piece:
                out.append((m.group(1).strip(), " ".join(m.group(2).split())))
        return out

    # ------------------------------------------------------------------ physics / renorm
    def element_abund_polys(self):
        """element slot -> Poly over y[...] from GetElementAbund."""
        _, stmts = self.function("naunet_physics", r"GetElementAbund")
        out = {}
        consts = self._consts()
        for s in stmts:
            if s[0] == "if":
                cond = s[1]
                if not (cond[0] == "binop" and cond[1] == "==" and cond[2] == ("id", "elemidx")):
                    raise CParseError("unexpected condition in GetElementAbund")
                slot = const_int(cond[3], consts)
                body = s[2]
                rets = [b for b in (body[1] if body[0] == "block" else [body]) if b and b[0] == "return"]
                if len(rets) != 1:
                    raise CParseError("GetElementAbund branch without a single return")
                p = ast_to_poly(rets[0][1], consts, self._ALIAS)
                self._check_atoms(p, "GetElementAbund")
                out[slot] = p
        return out

    def mantle_poly(self):
        _, stmts = self.function("naunet_physics", r"GetMantleDens")
        rets = [s for s in stmts if s and s[0] == "return"]
        return ast_to_poly(rets[0][1], self._consts(), self._ALIAS)

    def renorm_matrix(self):
        _, stmts = self.function("naunet_renorm", r"InitRenorm")
        consts = self._consts()
        nel = self.ints["NELEMENTS"]
        out = {}
        for _, lhs, op, rhs in walk_assignments(stmts):
            if lhs[0] == "call" and lhs[1][0] == "id" and lhs[1][1] in ("IJth", "A"):
                args = lhs[2][1:] if lhs[1][1] == "IJth" else lhs[2]
                r, c = const_int(args[0], consts), const_int(args[1], consts)
                if not (0 <= r < nel and 0 <= c < nel):
                    raise LayoutViolation(f"renorm matrix entry ({r},{c}) outside {nel}x{nel}")
                out[(r, c)] = ast_to_poly(rhs, consts)
        return out

    def renorm_factors(self):
        _, stmts = self.function("naunet_renorm", r"RenormAbundance")
        consts = self._consts()
        out = {}
        for _, lhs, op, rhs in walk_assignments(stmts):
            if lhs[0] == "index" and lhs[1] == ("id", "ab"):
                slot = const_int(lhs[2], consts)
                out[slot] = ast_to_poly(rhs, consts)
        return out

    # ------------------------------------------------------------------ rates
    def rates_fn(self, which="EvalRates"):
        stem = "naunet_ode" if self.solver == "odeint" else "naunet_rates"
        return self.function(stem, which)
