"""Lexer + Pratt parser for the C/C++ expression subset naunet emits.

AST nodes are tuples:
  ('num', text, is_int)         numeric literal (text as written)
  ('id', name)
  ('str', text)
  ('call', func_ast, [args])    func_ast usually ('id', name)
  ('index', base, idx)
  ('member', base, field, op)   op in '->', '.'
  ('unop', op, e)               op in '-', '+', '!', '&', '*'
  ('binop', op, l, r)
  ('ternary', c, a, b)
  ('cast', typename, e)
  ('initlist', [items])
An unknown construct raises CParseError (harness error, never a violation).
"""
from __future__ import annotations
import re


class CParseError(Exception):
    pass


class CInvalidC(CParseError):
    """Text that is definitely ill-formed C (e.g. `--3.0`: decrement of an rvalue)."""


_TOKEN_RE = re.compile(
    r"""
    (?P<ws>\s+)
  | (?P<num>(?:\d+\.\d*(?:[eE][+-]?\d+)?|\.\d+(?:[eE][+-]?\d+)?|\d+[eE][+-]?\d+|\d+)(?:[fFlLuU]*))
  | (?P<id>[A-Za-z_][A-Za-z0-9_]*(?:::[A-Za-z_][A-Za-z0-9_]*)*)
  | (?P<str>"(?:\\.|[^"\\])*")
  | (?P<chr>'(?:\\.|[^'\\])')
  | (?P<op><<<|>>>|->|\+\+|--|<<|>>|<=|>=|==|!=|&&|\|\||\+=|-=|\*=|/=|[-+*/%<>=!&|^~?:;,.(){}\[\]])
    """,
    re.X,
)


def tokenize(text: str):
    toks = []
    pos = 0
    n = len(text)
    while pos < n:
        m = _TOKEN_RE.match(text, pos)
        if not m:
            raise CParseError(f"cannot tokenize at {text[pos:pos+30]!r}")
        pos = m.end()
        kind = m.lastgroup
        if kind == "ws":
            continue
        toks.append((kind, m.group(kind)))
    return toks


_BINPREC = {
    "||": 1,
    "&&": 2,
    "==": 5,
    "!=": 5,
    "<": 6,
    ">": 6,
    "<=": 6,
    ">=": 6,
    "+": 8,
    "-": 8,
    "*": 9,
    "/": 9,
    "%": 9,
}

_TYPEWORDS = {
    "realtype",
    "double",
    "float",
    "int",
    "long",
    "unsigned",
    "size_t",
    "sunindextype",
    "NaunetData",
    "void",
    "const",
    "char",
}


class ExprParser:
    def __init__(self, toks):
        self.toks = toks
        self.i = 0

    def peek(self, k=0):
        j = self.i + k
        return self.toks[j] if j < len(self.toks) else (None, None)

    def next(self):
        t = self.peek()
        self.i += 1
        return t

    def accept(self, val):
        if self.peek()[1] == val and self.peek()[0] in ("op",):
            self.i += 1
            return True
        return False

    def expect(self, val):
        t = self.next()
        if t[1] != val:
            raise CParseError(f"expected {val!r}, got {t!r}")

    def at_end(self):
        return self.i >= len(self.toks)

    # expression := ternary
    def parse_expr(self):
        return self.parse_ternary()

    def parse_ternary(self):
        c = self.parse_binary(1)
        if self.peek() == ("op", "?"):
            self.next()
            a = self.parse_ternary()
            self.expect(":")
            b = self.parse_ternary()
            return ("ternary", c, a, b)
        return c

    def parse_binary(self, minprec):
        lhs = self.parse_unary()
        while True:
            k, v = self.peek()
            if k != "op" or v not in _BINPREC or _BINPREC[v] < minprec:
                return lhs
            self.next()
            rhs = self.parse_binary(_BINPREC[v] + 1)
            lhs = ("binop", v, lhs, rhs)

    def parse_unary(self):
        k, v = self.peek()
        if k == "op" and v in ("-", "+", "!", "&", "*"):
            self.next()
            e = self.parse_unary()
            return ("unop", v, e)
        if k == "op" and v in ("--", "++"):
            raise CInvalidC(f"operator fusion {v!r} (decrement/increment of an rvalue)")
        # cast: ( typename [*] ) unary
        if k == "op" and v == "(":
            k1, v1 = self.peek(1)
            if k1 == "id" and v1 in _TYPEWORDS:
                j = self.i + 1
                tw = []
                while j < len(self.toks) and (
                    (self.toks[j][0] == "id" and self.toks[j][1] in _TYPEWORDS)
                    or self.toks[j] == ("op", "*")
                ):
                    tw.append(self.toks[j][1])
                    j += 1
                if j < len(self.toks) and self.toks[j] == ("op", ")"):
                    self.i = j + 1
                    e = self.parse_unary()
                    return ("cast", " ".join(tw), e)
        return self.parse_postfix()

    def parse_postfix(self):
        e = self.parse_primary()
        while True:
            k, v = self.peek()
            if k != "op":
                return e
            if v == "(":
                self.next()
                args = []
                if self.peek() != ("op", ")"):
                    while True:
                        args.append(self.parse_expr())
                        if self.peek() == ("op", ","):
                            self.next()
                            continue
                        break
                self.expect(")")
                e = ("call", e, args)
            elif v == "[":
                self.next()
                idx = self.parse_expr()
                self.expect("]")
                e = ("index", e, idx)
            elif v in ("->", "."):
                self.next()
                kk, name = self.next()
                if kk != "id":
                    raise CParseError(f"member name expected after {v}")
                e = ("member", e, name, v)
            else:
                return e

    def parse_primary(self):
        k, v = self.next()
        if k == "num":
            txt = v.rstrip("fFlLuU")
            is_int = re.fullmatch(r"\d+", txt) is not None
            return ("num", txt, is_int)
        if k == "id":
            return ("id", v)
        if k == "str":
            return ("str", v)
        if k == "op" and v == "(":
            e = self.parse_expr()
            self.expect(")")
            return e
        if k == "op" and v == "{":
            items = []
            if self.peek() != ("op", "}"):
                while True:
                    items.append(self.parse_expr())
                    if self.peek() == ("op", ","):
                        self.next()
                        if self.peek() == ("op", "}"):
                            break
                        continue
                    break
            self.expect("}")
            return ("initlist", items)
        raise CParseError(f"unexpected token {k}:{v!r}")


def parse_expression(text_or_toks):
    toks = tokenize(text_or_toks) if isinstance(text_or_toks, str) else text_or_toks
    p = ExprParser(toks)
    e = p.parse_expr()
    if not p.at_end():
        raise CParseError(f"trailing tokens after expression: {p.toks[p.i:p.i+6]}")
    return e


def ast_to_str(e) -> str:
    k = e[0]
    if k == "num":
        return e[1]
    if k == "id":
        return e[1]
    if k == "str":
        return e[1]
    if k == "call":
        return f"{ast_to_str(e[1])}({', '.join(ast_to_str(a) for a in e[2])})"
    if k == "index":
        return f"{ast_to_str(e[1])}[{ast_to_str(e[2])}]"
    if k == "member":
        return f"{ast_to_str(e[1])}{e[3]}{e[2]}"
    if k == "unop":
        return f"({e[1]}{ast_to_str(e[2])})"
    if k == "binop":
        return f"({ast_to_str(e[2])} {e[1]} {ast_to_str(e[3])})"
    if k == "ternary":
        return f"({ast_to_str(e[1])} ? {ast_to_str(e[2])} : {ast_to_str(e[3])})"
    if k == "cast":
        return f"(({e[1]}){ast_to_str(e[2])})"
    if k == "initlist":
        return "{" + ", ".join(ast_to_str(a) for a in e[1]) + "}"
    raise CParseError(f"unknown ast node {k}")
