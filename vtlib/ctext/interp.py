"""Numeric interpreter for the statement subset of the generated C/C++ code (C double semantics)."""
from __future__ import annotations
import math

from .lexer import CParseError, ast_to_str


class OutOfBounds(Exception):
    """A subscript outside the declared size — a property violation (C03), not a harness error."""


class UndeclaredSymbol(CParseError):
    pass


class ReturnSignal(Exception):
    def __init__(self, value):
        self.value = value


class BreakSignal(Exception):
    pass


NAN = float("nan")
INF = float("inf")


def c_div(a, b):
    if isinstance(a, int) and isinstance(b, int) and not isinstance(a, bool):
        if b == 0:
            raise CParseError("integer division by zero")
        q = abs(a) // abs(b)
        return q if (a < 0) == (b < 0) else -q
    a = float(a)
    b = float(b)
    if b == 0.0:
        if a == 0.0 or a != a:
            return NAN
        neg = (math.copysign(1.0, a) < 0) != (math.copysign(1.0, b) < 0)
        return -INF if neg else INF
    try:
        return a / b
    except OverflowError:
        return INF if (a > 0) == (b > 0) else -INF


def c_mul(a, b):
    if isinstance(a, int) and isinstance(b, int):
        return a * b
    try:
        return float(a) * float(b)
    except OverflowError:
        return INF


def c_pow(x, y):
    x = float(x)
    y = float(y)
    try:
        return math.pow(x, y)
    except OverflowError:
        if x < 0 and y == math.floor(y) and int(y) % 2 == 1:
            return -INF
        return INF
    except ValueError:
        if x == 0.0 and y < 0:
            if math.copysign(1.0, x) < 0 and y == math.floor(y) and int(y) % 2 == 1:
                return -INF
            return INF
        return NAN
    except ZeroDivisionError:
        return INF


def c_exp(x):
    x = float(x)
    try:
        return math.exp(x)
    except OverflowError:
        return INF


def c_log(x):
    x = float(x)
    if x != x:
        return NAN
    if x == 0.0:
        return -INF
    if x < 0:
        return NAN
    return math.log(x)


def c_log10(x):
    x = float(x)
    if x != x:
        return NAN
    if x == 0.0:
        return -INF
    if x < 0:
        return NAN
    return math.log10(x)


def c_sqrt(x):
    x = float(x)
    if x != x:
        return NAN
    if x < 0:
        return NAN
    return math.sqrt(x)


def c_fmax(a, b):
    a, b = float(a), float(b)
    if a != a:
        return b
    if b != b:
        return a
    return max(a, b)


def c_fmin(a, b):
    a, b = float(a), float(b)
    if a != a:
        return b
    if b != b:
        return a
    return min(a, b)


BUILTINS = {
    "pow": c_pow,
    "exp": c_exp,
    "log": c_log,
    "log10": c_log10,
    "sqrt": c_sqrt,
    "fabs": lambda x: abs(float(x)),
    "abs": lambda x: abs(x),
    "fmax": c_fmax,
    "fmin": c_fmin,
    "std::max": lambda a, b: b if a < b else a,
    "std::min": lambda a, b: b if b < a else a,
    "max": lambda a, b: b if a < b else a,
    "min": lambda a, b: b if b < a else a,
}


class CArray:
    def __init__(self, name, size, fill=0.0, data=None):
        self.name = name
        self.size = size
        self.data = list(data) if data is not None else [fill] * size
        self.writes = set()

    def _chk(self, i):
        if not isinstance(i, int):
            raise CParseError(f"non-integer subscript on {self.name}: {i!r}")
        if i < 0 or i >= self.size:
            raise OutOfBounds(f"{self.name}[{i}] outside declared size {self.size}")

    def get(self, i):
        self._chk(i)
        return self.data[i]

    def set(self, i, v):
        self._chk(i)
        self.data[i] = v
        self.writes.add(i)

    def view(self, off):
        return CArrayView(self, off)


class CArrayView:
    def __init__(self, base, off):
        self.base = base
        self.off = off
        self.name = base.name

    def get(self, i):
        return self.base.get(self.off + i)

    def set(self, i, v):
        self.base.set(self.off + i, v)

    def view(self, off):
        return CArrayView(self.base, self.off + off)


class CMatrix:
    def __init__(self, name, nrow, ncol):
        self.name = name
        self.nrow = nrow
        self.ncol = ncol
        self.data = {}

    def _chk(self, i, j):
        if not (isinstance(i, int) and isinstance(j, int)):
            raise CParseError(f"non-integer matrix subscript on {self.name}")
        if i < 0 or i >= self.nrow or j < 0 or j >= self.ncol:
            raise OutOfBounds(f"{self.name}({i},{j}) outside {self.nrow}x{self.ncol}")

    def get(self, i, j):
        self._chk(i, j)
        return self.data.get((i, j), 0.0)

    def set(self, i, j, v):
        self._chk(i, j)
        self.data[(i, j)] = v


_INT_TYPES = ("int", "long", "size_t", "sunindextype", "unsigned")


class Interp:
    """consts: name->int (macros); funcs: name->callable(*values); globals_: name->value."""

    def __init__(self, consts=None, funcs=None, globals_=None):
        self.consts = dict(consts or {})
        self.funcs = dict(BUILTINS)
        self.funcs.update(funcs or {})
        self.scopes = [dict(globals_ or {})]
        self.declared_order = []

    # --- environment
    def lookup(self, name):
        for sc in reversed(self.scopes):
            if name in sc:
                return sc[name]
        if name in self.consts:
            return self.consts[name]
        raise UndeclaredSymbol(f"use of undeclared identifier '{name}'")

    def assign_var(self, name, v):
        for sc in reversed(self.scopes):
            if name in sc:
                sc[name] = v
                return
        raise UndeclaredSymbol(f"assignment to undeclared identifier '{name}'")

    def declare(self, name, v):
        if name in self.scopes[-1]:
            raise CParseError(f"redeclaration of '{name}' in the same scope")
        self.scopes[-1][name] = v
        self.declared_order.append(name)

    # --- expressions
    def eval(self, e):
        k = e[0]
        if k == "num":
            return int(e[1]) if e[2] else float(e[1])
        if k == "id":
            return self.lookup(e[1])
        if k == "index":
            base = self.eval(e[1])
            idx = self.eval(e[2])
            if not hasattr(base, "get"):
                raise CParseError(f"subscript on non-array {ast_to_str(e[1])}")
            return base.get(idx)
        if k == "member":
            base = self.eval(e[1])
            if isinstance(base, dict):
                if e[2] not in base:
                    raise UndeclaredSymbol(f"no member named '{e[2]}' in struct")
                return base[e[2]]
            raise CParseError(f"member access on non-struct {ast_to_str(e)}")
        if k == "unop":
            op = e[1]
            if op == "&":
                # &array[i]  -> view / struct element
                inner = e[2]
                if inner[0] == "index":
                    base = self.eval(inner[1])
                    idx = self.eval(inner[2])
                    if isinstance(base, list):
                        return base[idx]
                    return base.view(idx)
                return self.eval(inner)
            v = self.eval(e[2])
            if op == "-":
                return -v
            if op == "+":
                return v
            if op == "!":
                return int(not v)
            if op == "*":
                return v
        if k == "binop":
            op = e[1]
            if op == "&&":
                return int(bool(self.eval(e[2])) and bool(self.eval(e[3])))
            if op == "||":
                return int(bool(self.eval(e[2])) or bool(self.eval(e[3])))
            a = self.eval(e[2])
            b = self.eval(e[3])
            if hasattr(a, "view") and isinstance(b, int) and op == "+":
                return a.view(b)
            if op == "+":
                return a + b
            if op == "-":
                return a - b
            if op == "*":
                return c_mul(a, b)
            if op == "/":
                return c_div(a, b)
            if op == "%":
                return a - b * c_div(a, b)
            if op == "==":
                return int(a == b)
            if op == "!=":
                return int(a != b)
            if op == "<":
                return int(a < b)
            if op == ">":
                return int(a > b)
            if op == "<=":
                return int(a <= b)
            if op == ">=":
                return int(a >= b)
        if k == "ternary":
            return self.eval(e[2]) if self.eval(e[1]) else self.eval(e[3])
        if k == "cast":
            v = self.eval(e[2])
            if "*" in e[1]:
                return v
            if any(t in e[1].split() for t in _INT_TYPES):
                return int(v)
            return float(v)
        if k == "call":
            fn = e[1]
            name = ast_to_str(fn)
            if fn[0] == "id":
                # matrix element read: j(r,c) / A(i,j)
                try:
                    obj = self.lookup(name)
                except UndeclaredSymbol:
                    obj = None
                if isinstance(obj, CMatrix):
                    args = [self.eval(a) for a in e[2]]
                    return obj.get(*args)
                if name == "IJth":
                    args = [self.eval(a) for a in e[2]]
                    return args[0].get(args[1], args[2])
            if name in self.funcs:
                args = [self.eval(a) for a in e[2]]
                return self.funcs[name](*args)
            raise UndeclaredSymbol(f"call to undeclared function '{name}'")
        if k == "initlist":
            return [self.eval(x) for x in e[1]]
        if k == "str":
            return e[1]
        raise CParseError(f"cannot evaluate {ast_to_str(e)}")

    # --- statements
    def store(self, lhs, v):
        k = lhs[0]
        if k == "id":
            old = self.lookup(lhs[1])
            if isinstance(old, float) and isinstance(v, int):
                v = float(v)
            self.assign_var(lhs[1], v)
            return
        if k == "index":
            base = self.eval(lhs[1])
            idx = self.eval(lhs[2])
            if not hasattr(base, "set"):
                raise CParseError(f"subscript store on non-array {ast_to_str(lhs[1])}")
            base.set(idx, v)
            return
        if k == "call":
            name = ast_to_str(lhs[1])
            args = [self.eval(a) for a in lhs[2]]
            if name == "IJth":
                args[0].set(args[1], args[2], v)
                return
            obj = self.lookup(name)
            if isinstance(obj, CMatrix):
                obj.set(args[0], args[1], v)
                return
        if k == "member":
            base = self.eval(lhs[1])
            if isinstance(base, dict):
                base[lhs[2]] = v
                return
        raise CParseError(f"unsupported assignment target {ast_to_str(lhs)}")

    def exec_block(self, stmts, new_scope=True):
        if new_scope:
            self.scopes.append({})
        try:
            for s in stmts:
                self.exec(s)
        finally:
            if new_scope:
                self.scopes.pop()

    def exec(self, s):
        if s is None:
            return
        k = s[0]
        if k == "decl":
            _, typ, name, size, init, ptr = s
            is_int = any(t in typ.split() for t in _INT_TYPES)
            if size is not None or (init is not None and init[0] == "initlist" and not ptr):
                n = self.eval(size) if size is not None else len(init[1])
                fill = 0 if is_int else 0.0
                arr = CArray(name, n, fill)
                if init is not None:
                    if init[0] != "initlist":
                        raise CParseError("array initialiser must be a brace list")
                    vals = [self.eval(x) for x in init[1]]
                    if len(vals) > n:
                        raise OutOfBounds(f"{len(vals)} initialisers for {name}[{n}]")
                    for i, v in enumerate(vals):
                        arr.data[i] = int(v) if is_int else float(v)
                self.declare(name, arr)
                return
            if init is None:
                self.declare(name, 0 if is_int else 0.0)
                return
            v = self.eval(init)
            if not ptr and isinstance(v, (int, float)):
                v = int(v) if is_int else float(v)
            self.declare(name, v)
            return
        if k == "assign":
            _, lhs, op, rhs = s
            v = self.eval(rhs)
            if op != "=":
                cur = self.eval(lhs)
                v = {"+=": cur + v, "-=": cur - v, "*=": c_mul(cur, v), "/=": c_div(cur, v)}[op]
            self.store(lhs, v)
            return
        if k == "expr":
            e = s[1]
            if e[0] == "call":
                name = ast_to_str(e[1])
                if name in ("printf", "fprintf", "SUNMatZero", "cudaDeviceSynchronize"):
                    if name == "SUNMatZero":
                        m = self.eval(e[2][0])
                        if isinstance(m, CMatrix):
                            m.data.clear()
                    return
            self.eval(e)
            return
        if k == "block":
            self.exec_block(s[1])
            return
        if k == "if":
            if self.eval(s[1]):
                self.exec_block([s[2]])
            elif s[3] is not None:
                self.exec_block([s[3]])
            return
        if k == "for":
            self.scopes.append({})
            try:
                if s[1] is not None:
                    self.exec(s[1])
                guard = 0
                while s[2] is None or self.eval(s[2]):
                    try:
                        self.exec_block([s[4]])
                    except BreakSignal:
                        break
                    if s[3] is not None:
                        self.exec(s[3])
                    guard += 1
                    if guard > 10_000_000:
                        raise CParseError("for loop does not terminate")
            finally:
                self.scopes.pop()
            return
        if k == "return":
            raise ReturnSignal(self.eval(s[1]) if s[1] is not None else None)
        if k == "break":
            raise BreakSignal()
        raise CParseError(f"unknown statement kind {k}")

    def run_function(self, stmts, params: dict):
        """Execute a function body with the given parameter bindings; returns the return value."""
        self.scopes.append(dict(params))
        try:
            self.exec_block(stmts, new_scope=False)
        except ReturnSignal as r:
            return r.value
        finally:
            self.scopes.pop()
        return None
