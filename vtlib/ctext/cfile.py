"""Reader for the generated C/C++ files: comments, preprocessor, function extraction, statements."""
from __future__ import annotations
import re

from .lexer import CParseError, ExprParser, tokenize, parse_expression, ast_to_str
from .poly import const_int


def strip_comments(text: str) -> str:
    out = []
    i, n = 0, len(text)
    while i < n:
        c = text[i]
        if c == '"':
            j = i + 1
            while j < n and text[j] != '"':
                j += 2 if text[j] == "\\" else 1
            out.append(text[i : j + 1])
            i = j + 1
        elif text.startswith("//", i):
            j = text.find("\n", i)
            j = n if j < 0 else j
            i = j
        elif text.startswith("/*", i):
            j = text.find("*/", i + 2)
            if j < 0:
                raise CParseError("unterminated comment")
            # keep newlines so that line structure survives
            out.append("\n" * text.count("\n", i, j + 2) or " ")
            i = j + 2
        else:
            out.append(c)
            i += 1
    return "".join(out)


class Macros:
    """Object-like macros (name -> replacement text) and the set of function-like ones."""

    def __init__(self):
        self.obj = {}
        self.fn = {}
        self.redefined = []

    def define(self, name, value, params=None):
        if params is None:
            if name in self.obj and self.obj[name].split() != value.split():
                self.redefined.append(name)
            self.obj[name] = value
        else:
            self.fn[name] = (params, value)

    def defined(self, name):
        return name in self.obj or name in self.fn

    def expand_text(self, text, depth=0):
        if depth > 20:
            raise CParseError("macro recursion")

        def rep(m):
            w = m.group(0)
            if w in self.obj:
                return "(" + self.expand_text(self.obj[w], depth + 1) + ")" if self.obj[w].strip() else ""
            return w

        return re.sub(r"[A-Za-z_][A-Za-z0-9_]*", rep, text)

    def eval_int(self, text):
        t = re.sub(r"defined\s*\(\s*(\w+)\s*\)", lambda m: "1" if self.defined(m.group(1)) else "0", text)
        t = re.sub(r"defined\s+(\w+)", lambda m: "1" if self.defined(m.group(1)) else "0", t)
        t = self.expand_text(t)
        # remaining identifiers evaluate to 0 (C preprocessor rule)
        t = re.sub(r"[A-Za-z_][A-Za-z0-9_]*", "0", t)
        return const_int(parse_expression(t), {})

    def int_table(self):
        """All object-like macros that evaluate to an integer constant."""
        tab = {}
        for name in self.obj:
            try:
                tab[name] = self.eval_int(name)
            except Exception:
                pass
        return tab


_DIRECTIVE = re.compile(r"^\s*#\s*(\w+)\s*(.*)$")


def preprocess(text: str, macros: Macros, include=None) -> str:
    """Resolve conditionals, collect #defines; returns the active text (directives blanked).

    include: optional callable(name) -> text for `#include "name"` (already-seen guarded by macros).
    """
    text = strip_comments(text)
    text = re.sub(r"\\\n", " ", text)
    out = []
    # stack entries: [parent_active, this_branch_active, any_branch_taken]
    stack = []

    def active():
        return all(s[0] and s[1] for s in stack)

    for line in text.split("\n"):
        m = _DIRECTIVE.match(line)
        if not m:
            out.append(line if active() else "")
            continue
        d, rest = m.group(1), m.group(2).strip()
        if d in ("if", "ifdef", "ifndef"):
            par = active()
            if not par:
                stack.append([False, False, True])
            else:
                if d == "if":
                    v = bool(macros.eval_int(rest))
                elif d == "ifdef":
                    v = macros.defined(rest.split()[0])
                else:
                    v = not macros.defined(rest.split()[0])
                stack.append([True, v, v])
        elif d == "elif":
            if not stack:
                raise CParseError("#elif without #if")
            s = stack[-1]
            if s[0]:
                if s[2]:
                    s[1] = False
                else:
                    v = bool(macros.eval_int(rest))
                    s[1] = v
                    s[2] = v
        elif d == "else":
            if not stack:
                raise CParseError("#else without #if")
            s = stack[-1]
            if s[0]:
                s[1] = not s[2]
                s[2] = True
        elif d == "endif":
            if not stack:
                raise CParseError("#endif without #if")
            stack.pop()
        elif d == "define":
            if active():
                mm = re.match(r"(\w+)(\(([^)]*)\))?\s*(.*)$", rest)
                if not mm:
                    raise CParseError(f"bad #define: {line}")
                name, hasp, params, val = mm.group(1), mm.group(2), mm.group(3), mm.group(4)
                # function-like only when '(' directly follows the name
                if hasp and rest[len(name) : len(name) + 1] == "(":
                    macros.define(name, val, [p.strip() for p in params.split(",")])
                else:
                    macros.define(name, rest[len(name) :].strip())
        elif d == "undef":
            if active():
                macros.obj.pop(rest.split()[0], None)
                macros.fn.pop(rest.split()[0], None)
        elif d == "include":
            if active() and include is not None:
                mm = re.match(r'"([^"]+)"', rest)
                if mm:
                    sub = include(mm.group(1))
                    if sub is not None:
                        out.append(preprocess(sub, macros, include))
                        continue
        elif d in ("pragma", "error", "warning", "line"):
            pass
        else:
            raise CParseError(f"unknown directive #{d}")
        out.append("")
    if stack:
        raise CParseError("unterminated #if")
    return "\n".join(out)


def _match_close(text, i, open_c, close_c):
    depth = 0
    n = len(text)
    j = i
    while j < n:
        c = text[j]
        if c == '"':
            j += 1
            while j < n and text[j] != '"':
                j += 2 if text[j] == "\\" else 1
        elif c == open_c:
            depth += 1
        elif c == close_c:
            depth -= 1
            if depth == 0:
                return j
        j += 1
    raise CParseError(f"unbalanced {open_c}{close_c}")


def find_function(text: str, name_regex: str):
    """Return (params_text, body_text) of the first *definition* whose name matches name_regex."""
    for m in re.finditer(r"(?<![A-Za-z0-9_:])(?:" + name_regex + r")\s*\(", text):
        p0 = m.end() - 1
        p1 = _match_close(text, p0, "(", ")")
        j = p1 + 1
        while j < len(text) and text[j] in " \t\r\n":
            j += 1
        # allow `const` qualifier
        if text.startswith("const", j):
            j += 5
            while j < len(text) and text[j] in " \t\r\n":
                j += 1
        if j < len(text) and text[j] == "{":
            b1 = _match_close(text, j, "{", "}")
            return text[p0 + 1 : p1], text[j + 1 : b1]
    return None


# ---------------------------------------------------------------------------------------------
# statements

_DECL_TYPES = {
    "realtype",
    "double",
    "float",
    "int",
    "long",
    "unsigned",
    "size_t",
    "sunindextype",
    "NaunetData",
    "N_Vector",
    "SUNMatrix",
    "SUNContext",
    "SUNLinearSolver",
    "cudaStream_t",
    "cudaError_t",
    "vector_type",
    "matrix_type",
    "char",
    "void",
    "bool",
}
_QUALIFIERS = {"const", "static", "unsigned", "volatile", "__shared__", "register"}
_ASSIGN_OPS = {"=", "+=", "-=", "*=", "/="}


class StmtParser:
    def __init__(self, toks):
        self.toks = toks
        self.i = 0

    def peek(self, k=0):
        j = self.i + k
        return self.toks[j] if j < len(self.toks) else (None, None)

    def next(self):
        t = self.peek()
        self.i += 1
        return t

    def expect(self, v):
        t = self.next()
        if t[1] != v:
            raise CParseError(f"expected {v!r} got {t!r} near {self.toks[max(0,self.i-6):self.i+4]}")

    def parse_block_body(self, until=None):
        stmts = []
        while self.peek()[0] is not None and self.peek()[1] != until:
            s = self.parse_stmt()
            if s is not None:
                stmts.append(s)
        return stmts

    def _expr_until(self, stops):
        """Parse an expression using the sub-parser, leaving self.i at the stop token."""
        ep = ExprParser(self.toks)
        ep.i = self.i
        e = ep.parse_expr()
        self.i = ep.i
        if self.peek()[1] not in stops:
            raise CParseError(
                f"unexpected {self.peek()!r} after expression {ast_to_str(e)[:60]}; wanted {stops}"
            )
        return e

    def _is_decl_start(self):
        j = self.i
        while self.toks[j][0] == "id" and self.toks[j][1] in _QUALIFIERS:
            j += 1
            if j >= len(self.toks):
                return False
        k, v = self.toks[j]
        if k != "id":
            return False
        nxt = self.toks[j + 1] if j + 1 < len(self.toks) else (None, None)
        nx2 = self.toks[j + 2] if j + 2 < len(self.toks) else (None, None)
        nx3 = self.toks[j + 3] if j + 3 < len(self.toks) else (None, None)
        if v in _DECL_TYPES or j > self.i:
            if nxt[0] == "id":
                return True
            if nxt[1] in ("*", "&") and nx2[0] == "id" and nx3[1] in ("=", ";", "[", ","):
                return True
            if nxt[1] == "*" and nx2[1] == "*" and nx3[0] == "id":
                return True
        return False

    def parse_decl(self):
        tw = []
        while self.peek()[0] == "id" and self.peek()[1] in _QUALIFIERS:
            tw.append(self.next()[1])
        tw.append(self.next()[1])  # base type
        while self.peek()[0] == "id" and (self.peek(1)[0] == "id" or self.peek(1)[1] in ("*", "&")):
            tw.append(self.next()[1])
        decls = []
        while True:
            ptr = 0
            while self.peek()[1] in ("*", "&"):
                self.next()
                ptr += 1
            k, name = self.next()
            if k != "id":
                raise CParseError(f"declarator name expected, got {name!r}")
            size = None
            if self.peek()[1] == "[":
                self.next()
                size = self._expr_until(("]",)) if self.peek()[1] != "]" else None
                self.expect("]")
                # 2-d arrays are not interpreted
                while self.peek()[1] == "[":
                    self.next()
                    self._expr_until(("]",))
                    self.expect("]")
            init = None
            if self.peek()[1] == "=":
                self.next()
                init = self._expr_until((";", ","))
            elif self.peek()[1] == "(":
                # constructor-style initialiser: T x(args);
                self.next()
                args = []
                if self.peek()[1] != ")":
                    while True:
                        ep = ExprParser(self.toks)
                        ep.i = self.i
                        args.append(ep.parse_expr())
                        self.i = ep.i
                        if self.peek()[1] == ",":
                            self.next()
                            continue
                        break
                self.expect(")")
                init = ("call", ("id", "__ctor__" + " ".join(tw)), args)
            decls.append(("decl", " ".join(tw), name, size, init, ptr))
            if self.peek()[1] == ",":
                self.next()
                continue
            break
        self.expect(";")
        return decls[0] if len(decls) == 1 else ("block", decls)

    def parse_simple(self, stops=(";",)):
        """assignment / increment / expression, without the terminator."""
        if self.peek()[1] in ("++", "--"):
            op = self.next()[1]
            e = self._expr_until(stops)
            return ("assign", e, "+=" if op == "++" else "-=", ("num", "1", True))
        ep = ExprParser(self.toks)
        ep.i = self.i
        lhs = ep.parse_ternary()
        self.i = ep.i
        k, v = self.peek()
        if v in _ASSIGN_OPS:
            self.next()
            rhs = self._expr_until(stops)
            return ("assign", lhs, v, rhs)
        if v in ("++", "--"):
            self.next()
            return ("assign", lhs, "+=" if v == "++" else "-=", ("num", "1", True))
        if v == "<<<":
            # cuda kernel launch: skip to the terminator
            while self.peek()[1] not in stops:
                self.next()
            return ("expr", ("id", "__kernel_launch__"))
        if v not in stops:
            raise CParseError(f"unexpected token {v!r} in statement after {ast_to_str(lhs)[:80]}")
        return ("expr", lhs)

    def parse_stmt(self):
        k, v = self.peek()
        if v == ";":
            self.next()
            return None
        if v == "{":
            self.next()
            body = self.parse_block_body("}")
            self.expect("}")
            return ("block", body)
        if k == "id" and v == "if":
            self.next()
            self.expect("(")
            cond = self._expr_until((")",))
            self.expect(")")
            then = self.parse_stmt()
            els = None
            if self.peek() == ("id", "else"):
                self.next()
                els = self.parse_stmt()
            return ("if", cond, then, els)
        if k == "id" and v == "for":
            self.next()
            self.expect("(")
            init = None
            if self.peek()[1] != ";":
                init = self.parse_decl() if self._is_decl_start() else None
                if init is None:
                    init = self.parse_simple((";",))
                    self.expect(";")
            else:
                self.next()
            cond = None
            if self.peek()[1] != ";":
                cond = self._expr_until((";",))
            self.expect(";")
            step = None
            if self.peek()[1] != ")":
                step = self.parse_simple((")",))
            self.expect(")")
            body = self.parse_stmt()
            return ("for", init, cond, step, body)
        if k == "id" and v == "return":
            self.next()
            e = None
            if self.peek()[1] != ";":
                e = self._expr_until((";",))
            self.expect(";")
            return ("return", e)
        if k == "id" and v in ("switch", "while", "do", "try", "catch", "throw", "using", "namespace"):
            raise CParseError(f"unsupported statement keyword {v}")
        if k == "id" and v == "break":
            self.next()
            self.expect(";")
            return ("break",)
        if self._is_decl_start():
            return self.parse_decl()
        s = self.parse_simple((";",))
        self.expect(";")
        return s


def parse_body(body_text: str):
    toks = tokenize(body_text)
    sp = StmtParser(toks)
    stmts = sp.parse_block_body(None)
    if sp.peek()[0] is not None:
        raise CParseError(f"trailing tokens in body: {sp.toks[sp.i:sp.i+5]}")
    return stmts


def walk_assignments(stmts):
    """Yield every ('assign', lhs, op, rhs) in textual order, descending into blocks/if/for."""
    for s in stmts:
        if s is None:
            continue
        k = s[0]
        if k == "assign":
            yield s
        elif k == "block":
            yield from walk_assignments(s[1])
        elif k == "if":
            yield from walk_assignments([s[2]])
            if s[3] is not None:
                yield from walk_assignments([s[3]])
        elif k == "for":
            yield from walk_assignments([s[4]])


def walk_decls(stmts):
    for s in stmts:
        if s is None:
            continue
        k = s[0]
        if k == "decl":
            yield s
        elif k == "block":
            yield from walk_decls(s[1])
        elif k == "if":
            yield from walk_decls([s[2]])
            if s[3] is not None:
                yield from walk_decls([s[3]])
        elif k == "for":
            if s[1] is not None:
                yield from walk_decls([s[1]])
            yield from walk_decls([s[4]])
