"""Common runner: tiers, VERIF_SEED, sharding, Hypothesis driving, evidence, replays, exit codes.

Exit codes: 0 = property held on everything explored (KNOWN-FINDING lines allowed),
            1 = at least one unlisted violation (VIOLATION line printed),
            2 = harness error (never dressed up as a violation).
"""
from __future__ import annotations

import os

os.environ.setdefault("TQDM_DISABLE", "1")

import argparse
import contextlib
import hashlib
import importlib
import io
import json
import logging
import sys
import time
import traceback
from concurrent.futures import ProcessPoolExecutor
from pathlib import Path

ROOT = Path(__file__).resolve().parent.parent
# sums of more than a thousand terms (hub species of big networks) nest as deep in the expression trees of vtlib.ctext
sys.setrecursionlimit(max(sys.getrecursionlimit(), 60000))
# VT_OUT redirects run-time outputs (used by the mutant matrix so that it never overwrites real evidence)
_OUT = Path(os.environ["VT_OUT"]) if os.environ.get("VT_OUT") else ROOT
REPLAYS = _OUT / "replays"
EVIDENCE = _OUT / "evidence"
KNOWN_FILE = ROOT / "known_findings.txt"


# ------------------------------------------------------------------------------------ findings
def load_findings(prop):
    """Returns (findings, fixed): lists of dict(key, repro, text, commit)."""
    findings, fixed = [], []
    if not KNOWN_FILE.exists():
        return findings, fixed
    for line in KNOWN_FILE.read_text().splitlines():
        line = line.strip()
        if not line or line.startswith("#"):
            continue
        kind, _, rest = line.partition(":")
        head, _, text = rest.partition("::")
        fields = {}
        words = head.split()
        for w in words:
            if "=" in w:
                a, b = w.split("=", 1)
                fields[a] = b
        if fields.get("property") != prop:
            continue
        ent = dict(key=fields.get("key"), repro=fields.get("repro"), text=text.strip())
        if kind.strip() == "finding":
            findings.append(ent)
        elif kind.strip() == "fixed":
            commits = [w for w in words if "=" not in w]
            ent["commit"] = commits[0] if commits else ""
            fixed.append(ent)
    return findings, fixed


# ------------------------------------------------------------------------------------ helpers
def case_key(case) -> str:
    return json.dumps(case, sort_keys=True, default=str)


def case_hash(case) -> str:
    return hashlib.sha1(case_key(case).encode()).hexdigest()[:16]


@contextlib.contextmanager
def quiet():
    """Silence naunet's prints / logging during one case."""
    buf = io.StringIO()
    logging.disable(logging.CRITICAL)
    with contextlib.redirect_stdout(buf), contextlib.redirect_stderr(buf):
        yield buf


class CaseResult:
    """Outcome of one generated case.

    failures : list of (root_cause_key, message)
    nontrivial : bool (by the check's stated rule)
    labels : classification labels for the distribution report
    sample : abridged JSON-able view of the case (for evidence)
    discarded : case outside the domain (counted, not evaluated)
    """

    def __init__(self, failures=None, nontrivial=False, labels=(), sample=None, discarded=False, extra=None):
        self.failures = list(failures or [])
        self.nontrivial = nontrivial
        self.labels = list(labels)
        self.sample = sample
        self.discarded = discarded
        self.extra = extra or {}


class HarnessError(Exception):
    pass


def evaluate(mod, case, tier):
    """Run the plain check function with output silenced; harness errors propagate."""
    with quiet():
        return mod.check_case(case, tier)


# ------------------------------------------------------------------------------------ shard
def run_shard(args):
    mod_name, tier, seed, shard, nshards, known_keys = args
    os.environ["TQDM_DISABLE"] = "1"
    logging.disable(logging.CRITICAL)
    t0 = time.time()
    out = dict(
        shard=shard,
        evaluations=0,
        nontrivial=[],
        labels={},
        samples=[],
        excluded_known={},
        discarded=0,
        violation=None,
        harness_error=None,
        extra={},
        wall=0.0,
    )
    try:
        import hypothesis
        from hypothesis import HealthCheck, Phase, given, settings

        mod = importlib.import_module(mod_name)
        budget = mod.budget(tier)
        n_examples = budget["examples"]
        shrink_calls = budget.get("shrink_calls", 150 if tier == "quick" else 1500)
        strat = mod.strategy(tier)
        cache = {}
        state = dict(failed=False, post=0, abort=False, last_fail=None)
        nontriv = set()

        def record(case, res):
            out["evaluations"] += 1
            if res.discarded:
                out["discarded"] += 1
                return
            for lb in res.labels:
                out["labels"][lb] = out["labels"].get(lb, 0) + 1
            for k, v in res.extra.items():
                out["extra"][k] = out["extra"].get(k, 0) + v
            if res.nontrivial:
                h = case_hash(case)
                if h not in nontriv:
                    nontriv.add(h)
                    if len(out["samples"]) < 3 and res.sample is not None:
                        out["samples"].append(res.sample)

        def prop(case):
            if state["abort"]:
                return
            key = case_key(case)
            if key in cache:
                res = cache[key]
            else:
                if state["failed"] and state["post"] >= shrink_calls:
                    return
                try:
                    res = evaluate(mod, case, tier)
                except Exception as e:  # harness error: stop, never shrink
                    state["abort"] = True
                    out["harness_error"] = dict(
                        case=case, error=f"{type(e).__name__}: {e}", trace=traceback.format_exc()[-3000:]
                    )
                    return
                cache[key] = res
                if state["failed"]:
                    state["post"] += 1
                else:
                    record(case, res)
            unknown = []
            for fk, msg in res.failures:
                if fk in known_keys:
                    if not state["failed"]:
                        out["excluded_known"][fk] = out["excluded_known"].get(fk, 0) + 1
                else:
                    unknown.append((fk, msg))
            if unknown:
                state["failed"] = True
                state["last_fail"] = dict(case=case, failures=unknown)
                raise AssertionError(f"{unknown[0][0]}: {unknown[0][1]}")

        phases = [Phase.generate, Phase.shrink] if budget.get("shrink", True) else [Phase.generate]
        st = settings(
            max_examples=n_examples,
            database=None,
            deadline=None,
            derandomize=False,
            report_multiple_bugs=False,
            phases=phases,
            suppress_health_check=list(HealthCheck),
            print_blob=False,
        )
        if getattr(mod, "STATEFUL", False):
            # stateful machines: the module supplies a machine factory bound to a recorder
            from hypothesis.stateful import run_state_machine_as_test

            machine = mod.make_machine(tier, record_fn=lambda c, r: record(c, r), known_keys=known_keys, state=state)
            try:
                run_state_machine_as_test(
                    hypothesis.seed(seed * 1000 + shard)(machine),
                    settings=settings(
                        st, stateful_step_count=budget.get("steps", 25), max_examples=n_examples
                    ),
                )
            except AssertionError:
                pass
            except Exception as e:
                if state["last_fail"] is None:
                    raise
        else:
            test = hypothesis.seed(seed * 1000 + shard)(st(given(strat)(prop)))
            try:
                test()
            except AssertionError:
                pass
            except hypothesis.errors.Flaky as e:
                if state["last_fail"] is None:
                    raise
        if state["last_fail"] is not None:
            out["violation"] = state["last_fail"]
        out["nontrivial"] = sorted(nontriv)
    except Exception as e:
        out["harness_error"] = dict(case=None, error=f"{type(e).__name__}: {e}", trace=traceback.format_exc()[-3000:])
    out["wall"] = time.time() - t0
    return out


# ------------------------------------------------------------------------------------ driver
def write_replay(prop, case, failures, note=""):
    d = REPLAYS / prop
    d.mkdir(parents=True, exist_ok=True)
    p = d / f"{case_hash(case)}.json"
    p.write_text(json.dumps(dict(property=prop, case=case, failures=failures, note=note), indent=1, default=str))
    return p.relative_to(_OUT)


def run_check(prop, tier, seed, replay=None, workers=None):
    t0 = time.time()
    mod_name = f"vtlib.checks.{prop.lower()}"
    mod = importlib.import_module(mod_name)
    findings, fixed = load_findings(prop)
    known_keys = {f["key"] for f in findings if f["key"]}
    violations = []
    harness_errors = []
    lines = []

    def emit(s):
        print(s, flush=True)

    # -- replay mode
    if replay:
        data = json.loads(Path(replay).read_text())
        case = data["case"]
        res = evaluate(mod, case, tier)
        unknown = [(k, m) for k, m in res.failures if k not in known_keys]
        for k, m in res.failures:
            emit(f"  failure key={k}: {m}")
        if unknown:
            emit(f"VIOLATION property={prop} replay={replay}")
            return 1
        emit(f"replay passes ({len(res.failures)} known failures)")
        return 0

    # -- committed reproducers of this property's known-findings entries
    known_seen = []
    for f in findings:
        if not f["repro"]:
            continue
        data = json.loads((ROOT / f["repro"]).read_text())
        try:
            res = evaluate(mod, data["case"], tier)
        except Exception as e:
            harness_errors.append(dict(case=data["case"], error=f"{type(e).__name__}: {e}", trace=traceback.format_exc()))
            continue
        if any(k == f["key"] for k, _ in res.failures):
            emit(f"KNOWN-FINDING: property={prop} {f['text']} [key={f['key']}]")
            known_seen.append(f["key"])
        other = [(k, m) for k, m in res.failures if k not in known_keys]
        if other:
            violations.append(dict(case=data["case"], failures=other, origin=f["repro"]))
    for f in fixed:
        if not f["repro"]:
            continue
        data = json.loads((ROOT / f["repro"]).read_text())
        try:
            res = evaluate(mod, data["case"], tier)
        except Exception as e:
            harness_errors.append(dict(case=data["case"], error=f"{type(e).__name__}: {e}", trace=traceback.format_exc()))
            continue
        other = [(k, m) for k, m in res.failures if k not in known_keys]
        if other:
            violations.append(dict(case=data["case"], failures=other, origin=f["repro"]))

    # -- fixed corpus cases (plain functions, no Hypothesis)
    evaluations = 0
    nontriv = set()
    labels = {}
    samples = []
    excluded = {}
    discarded = 0
    extra = {}
    corpus = list(mod.fixed_cases(tier)) if hasattr(mod, "fixed_cases") and not os.environ.get("VT_NO_CORPUS") else []
    for case in corpus:
        try:
            res = evaluate(mod, case, tier)
        except Exception as e:
            harness_errors.append(dict(case=case, error=f"{type(e).__name__}: {e}", trace=traceback.format_exc()))
            continue
        evaluations += 1
        if res.discarded:
            discarded += 1
            continue
        for lb in res.labels:
            labels[lb] = labels.get(lb, 0) + 1
        for k, v in res.extra.items():
            extra[k] = extra.get(k, 0) + v
        if res.nontrivial:
            nontriv.add(case_hash(case))
            if len(samples) < 2 and res.sample is not None:
                samples.append(res.sample)
        unknown = []
        for k, m in res.failures:
            if k in known_keys:
                excluded[k] = excluded.get(k, 0) + 1
            else:
                unknown.append((k, m))
        if unknown:
            violations.append(dict(case=case, failures=unknown, origin="fixed-corpus"))

    # -- generated search, sharded
    budget = mod.budget(tier)
    nshards = budget.get("shards", 16)
    nshards = min(nshards, workers or os.cpu_count() or 1) if budget.get("cap_shards_to_cpus", False) else nshards
    jobs = [(mod_name, tier, seed, s, nshards, known_keys) for s in range(nshards)]
    results = []
    if nshards == 1 or os.environ.get("VT_INPROCESS"):
        results = [run_shard(j) for j in jobs]
    else:
        with ProcessPoolExecutor(max_workers=min(nshards, workers or os.cpu_count() or 1)) as ex:
            results = list(ex.map(run_shard, jobs))
    for r in results:
        evaluations += r["evaluations"]
        discarded += r["discarded"]
        nontriv.update(r["nontrivial"])
        for k, v in r["labels"].items():
            labels[k] = labels.get(k, 0) + v
        for k, v in r["excluded_known"].items():
            excluded[k] = excluded.get(k, 0) + v
        for k, v in r["extra"].items():
            extra[k] = extra.get(k, 0) + v
        for s in r["samples"]:
            if len(samples) < 6:
                samples.append(s)
        if r["violation"]:
            violations.append(dict(case=r["violation"]["case"], failures=r["violation"]["failures"], origin=f"shard{r['shard']}"))
        if r["harness_error"]:
            harness_errors.append(r["harness_error"])

    # -- optional post-phase supplied by the check (e.g. cross-check against compiled code)
    post = {}
    if hasattr(mod, "post_phase") and not harness_errors:
        try:
            with quiet():
                post = mod.post_phase(tier, seed) or {}
        except Exception as e:
            harness_errors.append(dict(case=None, error=f"post_phase {type(e).__name__}: {e}", trace=traceback.format_exc()))
        for v in post.pop("violations", []):
            unknown = [(k, m) for k, m in v["failures"] if k not in known_keys]
            if unknown:
                violations.append(dict(case=v["case"], failures=unknown, origin="post"))

    # -- report
    seen_roots = set()
    nviol = 0
    for v in violations:
        root = v["failures"][0][0]
        if root in seen_roots:
            continue
        seen_roots.add(root)
        nviol += 1
        p = write_replay(prop, v["case"], v["failures"], note=v.get("origin", ""))
        emit(f"  violation root-cause key={root}: {v['failures'][0][1][:400]}")
        emit(f"VIOLATION property={prop} replay={p}")
    for k in sorted(set(excluded) - set(known_seen)):
        f = next((f for f in findings if f["key"] == k), None)
        if f:
            emit(f"KNOWN-FINDING: property={prop} {f['text']} [key={k}]")

    wall = time.time() - t0
    ev = dict(
        property_id=prop,
        tier=tier,
        seed=seed,
        level=getattr(mod, "LEVEL", "exploration"),
        coverage=dict(
            evaluations=evaluations,
            distinct_nontrivial=len(nontriv),
            rule=getattr(mod, "RULE", ""),
            samples=samples[:6] or [{"note": "no non-trivial sample recorded"}],
            class_counts=dict(sorted(labels.items())),
            discarded_outside_domain=discarded,
            excluded_known=excluded,
            shards=nshards,
            fixed_corpus_cases=len(corpus),
            **extra,
            **post,
        ),
        assumptions=list(getattr(mod, "ASSUMPTIONS", [])),
        wall_s=round(wall, 2),
        violations=nviol,
    )
    if harness_errors:
        ev["coverage"]["harness_errors"] = [h["error"] for h in harness_errors][:5]
    EVIDENCE.mkdir(parents=True, exist_ok=True)
    (EVIDENCE / f"{prop}.json").write_text(json.dumps(ev, indent=1, default=str))
    emit(
        f"[{prop}] tier={tier} seed={seed} evaluations={evaluations} nontrivial={len(nontriv)} "
        f"discarded={discarded} excluded_known={sum(excluded.values())} violations={nviol} wall={wall:.1f}s"
    )
    if nviol:
        return 1
    if harness_errors:
        for h in harness_errors[:3]:
            emit(f"HARNESS-ERROR: {h['error']}")
            emit(h.get("trace", "")[-1500:])
            if h.get("case") is not None:
                emit("  case: " + case_key(h["case"])[:1500])
        return 2
    return 0


def main(argv=None):
    ap = argparse.ArgumentParser(prog="vt")
    sub = ap.add_subparsers(dest="cmd", required=True)
    c = sub.add_parser("check")
    c.add_argument("prop")
    c.add_argument("--tier", default=os.environ.get("VERIF_TIER", "quick"))
    c.add_argument("--replay", default=None)
    c.add_argument("--seed", type=int, default=None)
    sub.add_parser("setup")
    a = ap.parse_args(argv)
    if a.cmd == "setup":
        from . import setup as _setup

        return _setup.main()
    seed = a.seed if a.seed is not None else int(os.environ.get("VERIF_SEED", "1") or 1)
    tier = a.tier if a.tier in ("quick", "thorough") else "quick"
    try:
        return run_check(a.prop.upper(), tier, seed, replay=a.replay)
    except Exception:
        traceback.print_exc()
        print("HARNESS-ERROR: runner crashed")
        return 2


if __name__ == "__main__":
    sys.exit(main())
