#!/venv/bin/python
"""Run every seeded change against its property's check, each in its own scratch copy of /repo (PYTHONPATH override).

usage: tools_matrix.py [--tier quick] [--jobs 3] [ids...]     -> seeded/RESULTS.json + seeded/RESULTS.md
"""
import json, os, shutil, subprocess, sys, time
from concurrent.futures import ThreadPoolExecutor
from pathlib import Path

ROOT = Path(__file__).resolve().parent
args = sys.argv[1:]
tier = "quick"
jobs = 3
if "--tier" in args:
    tier = args[args.index("--tier") + 1]; del args[args.index("--tier"):args.index("--tier") + 2]
if "--jobs" in args:
    jobs = int(args[args.index("--jobs") + 1]); del args[args.index("--jobs"):args.index("--jobs") + 2]
only = set(args)

def one(item):
    pid, var, patch = item
    scratch = Path(f"/tmp/vtm/{pid}{var}")
    shutil.rmtree(scratch, ignore_errors=True)
    scratch.parent.mkdir(parents=True, exist_ok=True)
    subprocess.run(["git", "-C", "/repo", "worktree", "add", "-q", "--detach", str(scratch), "HEAD"], check=True)
    out = Path(f"/tmp/vtm/out_{pid}{var}")
    out.mkdir(parents=True, exist_ok=True)
    try:
        ap = subprocess.run(["git", "-C", str(scratch), "apply", str(patch)], capture_output=True, text=True)
        if ap.returncode != 0:
            return dict(property=pid, variant=var, patch=patch.name, result="PATCH-DOES-NOT-APPLY", detail=ap.stderr[-200:])
        t0 = time.time()
        env = dict(os.environ, PYTHONPATH=str(scratch), VT_OUT=str(out), VERIF_SEED="1")
        p = subprocess.run(["./vt", "check", pid, "--tier", tier], cwd=ROOT, env=env, capture_output=True, text=True)
        lines = [l for l in p.stdout.splitlines() if l.startswith(("VIOLATION", "  violation", "HARNESS"))]
        res = "CAUGHT" if p.returncode == 1 else "MISSED" if p.returncode == 0 else f"HARNESS-ERROR({p.returncode})"
        return dict(property=pid, variant=var, patch=patch.name, result=res, wall_s=round(time.time() - t0, 1), detail=[l[:260] for l in lines[:3]])
    finally:
        subprocess.run(["git", "-C", "/repo", "worktree", "remove", "--force", str(scratch)], capture_output=True)
        shutil.rmtree(out, ignore_errors=True)

items = []
for pdir in sorted((ROOT / "seeded").glob("C*")):
    for vdir in sorted(pdir.iterdir()):
        if not vdir.is_dir():
            continue
        patch = vdir / "patch_head.diff" if (vdir / "patch_head.diff").exists() else vdir / "patch.diff"
        if only and pdir.name not in only and f"{pdir.name}{vdir.name}" not in only:
            continue
        meta = json.loads((vdir / "meta.json").read_text()) if (vdir / "meta.json").exists() else {}
        if meta.get("status_on_head", "").startswith("neutralised"):
            continue  # a later fix: commit removed the mechanism this change relied on (its demo passes on HEAD)
        items.append((pdir.name, vdir.name, patch))
with ThreadPoolExecutor(jobs) as ex:
    results = list(ex.map(one, items))
prev = {}
rj = ROOT / "seeded" / "RESULTS.json"
if rj.exists() and only:
    prev = {(r["property"], r["variant"]): r for r in json.loads(rj.read_text())}
for r in results:
    prev[(r["property"], r["variant"])] = r
allr = [prev[k] for k in sorted(prev)] if prev else results
rj.write_text(json.dumps(allr, indent=1))
md = ["# Seeded changes vs. checks (tier: %s, /repo HEAD %s)" % (tier, subprocess.run(["git", "-C", "/repo", "log", "--format=%h", "-1"], capture_output=True, text=True).stdout.strip()), "",
      "| property | variant | patch | result | wall s | first report |", "|---|---|---|---|---|---|"]
for r in allr:
    d = r.get("detail")
    first = (d[0] if isinstance(d, list) and d else d or "").replace("|", "\\|")[:160]
    md.append(f"| {r['property']} | {r['variant']} | {r['patch']} | {r['result']} | {r.get('wall_s', '')} | {first} |")
(ROOT / "seeded" / "RESULTS.md").write_text("\n".join(md) + "\n")
print("\n".join(f"{r['property']}{r['variant']}: {r['result']}" for r in results))
