#!/bin/bash
# which seeded patches no longer apply to /repo's HEAD?  usage: tools_applycheck.sh [Cxx ...]
cd "$(dirname "$0")"
for p in ${@:-$(ls seeded | grep '^C')}; do
  for d in seeded/$p/*/; do
    d=${d%/}
    grep -qs '"status_on_head": "neutralised' $d/meta.json && continue
    f=$PWD/$d/patch_head.diff; [ -f $f ] || f=$PWD/$d/patch.diff
    git -C /repo apply --check $f 2>/dev/null || echo "STALE $d ($(basename $f))"
  done
done
