#!/venv/bin/python
"""Confirm sub-agent seeded changes in their scratch worktrees and import the confirmed ones into seeded/<id>/<v>/.

usage: tools_confirm.py <worktree-root> <round> [ids...]       e.g. tools_confirm.py /tmp/wt3 3 C14 C18
For every <root>/<id>/_seed/<v>/ with patch.diff + demo.py + meta.json that is not imported yet:
  demo on the clean worktree (expect 0) -> git apply -> pytest (expect the baseline: 82 passed / the same 3 failing) ->
  demo (expect 1) -> git checkout.  Only then copied to /verif/seeded/<id>/<v>/ with a "confirmed_by_me" record.
"""
import json, os, re, shutil, subprocess, sys
from concurrent.futures import ThreadPoolExecutor
from pathlib import Path

ROOT = Path(__file__).resolve().parent
root = Path(sys.argv[1])
rnd = int(sys.argv[2])
only = set(sys.argv[3:])
BASE_FAIL = {"test_command_example", "test_export_empty_network", "test_export_network"}


def sh(cmd, cwd, timeout=1500):
    env = dict(os.environ, PYTHONPATH=str(cwd), TQDM_DISABLE="1", PYTHONHASHSEED="0")
    p = subprocess.run(cmd, cwd=cwd, env=env, capture_output=True, text=True, shell=isinstance(cmd, str), timeout=timeout)
    return p.returncode, (p.stdout + p.stderr)


def one(wt):
    pid = wt.name
    out = []
    for vdir in sorted((wt / "_seed").iterdir()) if (wt / "_seed").exists() else []:
        v = vdir.name
        dest = ROOT / "seeded" / pid / v
        if dest.exists() or not all((vdir / f).exists() for f in ("patch.diff", "demo.py", "meta.json")):
            continue
        rec = dict(where=f"scratch worktree {wt} at /repo {subprocess.run(['git', '-C', str(wt), 'log', '--format=%h', '-1'], capture_output=True, text=True).stdout.strip()}")
        sh(["git", "checkout", "--", "naunet"], wt)
        rc0, o0 = sh(["/venv/bin/python", f"_seed/{v}/demo.py"], wt)
        rec["demo_clean_exit"] = rc0
        ap, oa = sh(["git", "apply", f"_seed/{v}/patch.diff"], wt)
        if ap != 0:
            out.append((pid, v, "PATCH-DOES-NOT-APPLY", oa[-200:]))
            continue
        try:
            rct, ot = sh("/venv/bin/python -m pytest -q -p no:cacheprovider --timeout=900 tests 2>&1 | tail -8", wt)
            summ = [l for l in ot.splitlines() if re.search(r"\d+ passed", l)]
            rec["tests_with_change"] = summ[-1].strip("= ") if summ else ot[-200:]
            failed = set(re.findall(r"FAILED \S+::(\w+)", ot))
            ok_tests = bool(summ) and "82 passed" in summ[-1] and failed == BASE_FAIL
            rc1, o1 = sh(["/venv/bin/python", f"_seed/{v}/demo.py"], wt)
            rec["demo_mutated_exit"] = rc1
        finally:
            sh(["git", "checkout", "--", "naunet"], wt)
        ok = rc0 == 0 and rc1 == 1 and ok_tests
        # the patch must also apply to /repo HEAD (my fix: commits may have touched its context)
        chk = subprocess.run(["git", "-C", "/repo", "apply", "--check", str(vdir / "patch.diff")], capture_output=True, text=True)
        rec["applies_to_repo_head"] = chk.returncode == 0
        if not ok:
            out.append((pid, v, "NOT-CONFIRMED", json.dumps(rec) + " " + o1[-300:]))
            continue
        dest.mkdir(parents=True)
        for f in ("patch.diff", "demo.py"):
            shutil.copy(vdir / f, dest / f)
        meta = json.loads((vdir / "meta.json").read_text())
        meta["round"] = rnd
        rec["ran"] = ["demo (clean)", "git apply patch.diff", "pytest -q tests", "demo (mutated)", "git checkout -- naunet"]
        meta["confirmed_by_me"] = rec
        (dest / "meta.json").write_text(json.dumps(meta, indent=1))
        out.append((pid, v, "CONFIRMED" + ("" if rec["applies_to_repo_head"] else " (needs patch_head.diff)"), rec["tests_with_change"]))
    return out


wts = [w for w in sorted(root.glob("C*")) if not only or w.name in only]
with ThreadPoolExecutor(4) as ex:
    for res in ex.map(one, wts):
        for r in res:
            print(*r)
