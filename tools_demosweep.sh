#!/bin/bash
# Re-run every seeded change's demo on /repo's HEAD (scratch worktree): exit 0 on the clean tree, exit 1 with the change applied.
# usage: tools_demosweep.sh [Cxx ...]   -> seeded/DEMOS.txt
cd "$(dirname "$0")"
WT=$(mktemp -d /tmp/vt-demosweep-XXXX)
git -C /repo worktree add -q --detach "$WT/r" HEAD || exit 2
out=${DEMOS_OUT:-seeded/DEMOS.txt}; : > $out
for p in ${@:-$(ls seeded | grep '^C')}; do
  for d in seeded/$p/*/; do
    d=${d%/}
    grep -qs '"status_on_head": "neutralised' $d/meta.json && { echo "$d neutralised" >> $out; continue; }
    f=$PWD/$d/patch_head.diff; [ -f $f ] || f=$PWD/$d/patch.diff
    mkdir -p $WT/r/_seed/v; cp $d/demo.py $WT/r/_seed/v/demo.py   # (early demos find the tree relative to their own location)
    ( cd $WT/r && PYTHONPATH=$WT/r timeout 600 /venv/bin/python _seed/v/demo.py >/dev/null 2>&1 ); c=$?
    if git -C $WT/r apply $f 2>/dev/null; then
      ( cd $WT/r && PYTHONPATH=$WT/r timeout 600 /venv/bin/python _seed/v/demo.py >/dev/null 2>&1 ); m=$?
    else m=stale; fi
    git -C $WT/r reset -q --hard; git -C $WT/r clean -qfd
    echo "$d clean=$c changed=$m" >> $out
  done
done
git -C /repo worktree remove --force "$WT/r"; rm -rf "$WT"
grep -v "clean=0 changed=1$" $out | grep -v neutralised
