#!/bin/sh
# run every registered check in the thorough tier on the unchanged tree, outputs redirected (VT_OUT) so that the committed
# quick-tier evidence is not overwritten; usage: tools_thorough.sh [ids...]
cd "$(dirname "$0")"
IDS="${@:-C07 C08 C14 C15 C12 C04 C05 C11 C13 C18 C19 C20 C10 C09 C06 C02 C01 C03 C16 C17}"
./vt setup >/dev/null 2>&1
for i in $IDS; do
  s=$(date +%s)
  VT_OUT=/tmp/vt-thorough ./vt check $i --tier thorough > /tmp/vt-thorough-$i.log 2>&1; rc=$?
  echo "$i exit=$rc $(( $(date +%s) - s ))s $(grep '^\[C' /tmp/vt-thorough-$i.log | tail -1)"
done
